#!/bin/bash
# Builds the checker binaries offline from files on disk (the checks rebuild them anyway).
set -e
cd "$(dirname "$0")"
export GOFLAGS=-mod=mod GOPROXY=off GOSUMDB=off GOTOOLCHAIN=local CGO_ENABLED=1
mkdir -p bin evidence
( cd harness && go build -tags verif -o ../bin/vcheck ./cmd/vcheck )
( cd harness && go build -tags verif -race -o ../bin/vcheck-race ./cmd/vcheck )
echo setup ok
