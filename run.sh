#!/bin/bash
# ./run.sh <Cxx> quick|thorough | ./run.sh <Cxx> --replay <path>
# Always rebuilds the checker against /repo's current working tree (hooks on: -tags verif).
set -u
cd "$(dirname "$0")"
ROOT=$(pwd)
export GOFLAGS=-mod=mod GOPROXY=off GOSUMDB=off GOTOOLCHAIN=local CGO_ENABLED=1
export VERIF_ROOT="$ROOT"
ID="${1:?property id}"
MODE="${2:?quick|thorough|--replay}"
mkdir -p "$ROOT/bin" "$ROOT/evidence"
build() { # $1 = output, rest = extra flags
  out="$1"; shift
  ( cd "$ROOT/harness" && go build -tags verif "$@" -o "$out" ./cmd/vcheck ) 2> "$ROOT/bin/build.err"
  rc=$?
  if [ $rc -ne 0 ]; then
    # the tree does not build with hooks on: nothing can be observed
    cat "$ROOT/bin/build.err" >&2
    echo "INCONCLUSIVE property=$ID reason=harness does not build against /repo"
    exit 2
  fi
}
build "$ROOT/bin/vcheck"
case "$ID" in
  C17) NEEDRACE=1 ;;
  C16|C18) if [ "$MODE" = thorough ]; then NEEDRACE=1; else NEEDRACE=0; fi ;;
  *) NEEDRACE=0 ;;
esac
if [ "$NEEDRACE" = 1 ]; then build "$ROOT/bin/vcheck-race" -race; fi
if [ "$MODE" = "--replay" ]; then
  exec "$ROOT/bin/vcheck" "$ID" --replay "${3:?path}"
fi
exec "$ROOT/bin/vcheck" "$ID" "$MODE"
