// vcheck: supervisor and worker of the runtime-monitoring checks.
//
//	vcheck <ID> quick|thorough            supervisor: shards the case list over worker processes
//	vcheck <ID> --replay <witness.json>   re-runs one recorded case in-process
//	vcheck --worker ...                   worker: runs a range of cases, logging each before it starts
package main

import (
	"bufio"
	"encoding/json"
	"flag"
	"fmt"
	"io"
	"log"
	"os"
	"os/exec"
	"path/filepath"
	"regexp"
	"runtime"
	"runtime/debug"
	"runtime/pprof"
	"sort"
	"strconv"
	"strings"
	"sync"
	"sync/atomic"
	"syscall"
	"time"

	"verifharness/core"
	"verifharness/props"
)

func verifRoot() string {
	if r := os.Getenv("VERIF_ROOT"); r != "" {
		return r
	}
	exe, err := os.Executable()
	if err == nil {
		return filepath.Dir(filepath.Dir(exe))
	}
	return "/verif"
}

func main() {
	log.SetOutput(io.Discard) // the package under test logs through the std logger under ContinueOnError
	if len(os.Args) >= 2 && os.Args[1] == "--worker" {
		workerMain(os.Args[2:])
		return
	}
	if len(os.Args) >= 3 && os.Args[1] == "--coldstart" {
		seed, _ := strconv.ParseInt(os.Args[2], 10, 64)
		os.Exit(props.ColdStartChild(seed))
	}
	if len(os.Args) >= 3 && os.Args[1] == "--expand" {
		props.DebugExpand(os.Args[2], len(os.Args) > 3)
		return
	}
	if len(os.Args) >= 3 && os.Args[1] == "--findings" {
		if err := props.WriteFindingWitnesses(os.Args[2]); err != nil {
			fmt.Fprintln(os.Stderr, err)
			os.Exit(1)
		}
		return
	}
	if len(os.Args) >= 3 && os.Args[1] == "--shrink" {
		props.Shrink(os.Args[2])
		return
	}
	if len(os.Args) < 3 {
		fmt.Fprintln(os.Stderr, "usage: vcheck <ID> quick|thorough | vcheck <ID> --replay <path>; ids:", strings.Join(core.IDs(), " "))
		os.Exit(3)
	}
	id := os.Args[1]
	p := core.Lookup(id)
	if p == nil {
		fmt.Fprintln(os.Stderr, "unknown property", id)
		os.Exit(3)
	}
	if os.Args[2] == "--replay" {
		if len(os.Args) < 4 {
			fmt.Fprintln(os.Stderr, "missing witness path")
			os.Exit(3)
		}
		os.Exit(replay(p, os.Args[3]))
	}
	tier := os.Args[2]
	if tier != "quick" && tier != "thorough" {
		fmt.Fprintln(os.Stderr, "tier must be quick or thorough")
		os.Exit(3)
	}
	os.Exit(supervise(p, tier))
}

func seedFromEnv() int64 {
	if s := os.Getenv("VERIF_SEED"); s != "" {
		if v, err := strconv.ParseInt(s, 10, 64); err == nil {
			return v
		}
	}
	return 1
}

// ---------------------------------------------------------------- worker

type workerLine struct {
	Start *int             `json:"start,omitempty"`
	Res   *core.CaseResult `json:"res,omitempty"`
}

func workerMain(args []string) {
	fs := flag.NewFlagSet("worker", flag.ExitOnError)
	prop := fs.String("prop", "", "")
	tier := fs.String("tier", "quick", "")
	seed := fs.Int64("seed", 1, "")
	from := fs.Int("from", 0, "")
	to := fs.Int("to", 0, "")
	out := fs.String("out", "", "")
	work := fs.String("work", "", "")
	_ = fs.Parse(args)
	p := core.Lookup(*prop)
	if p == nil {
		os.Exit(3)
	}
	f, err := os.OpenFile(*out, os.O_CREATE|os.O_WRONLY|os.O_APPEND, 0o644)
	if err != nil {
		fmt.Fprintln(os.Stderr, err)
		os.Exit(3)
	}
	defer f.Close()
	env := &core.Env{Tier: *tier, Seed: *seed, Workdir: *work}
	debug.SetMaxStack(256 << 20) // a runaway recursion dies after 256 MB instead of 1 GB
	if os.Getenv("VERIF_RACE_WORKER") == "" {
		// a runaway allocation kills this worker (seen by the supervisor as a fatal crash of the logged case), not the machine;
		// the race runtime needs its huge shadow mapping, so race workers are left alone
		lim := syscall.Rlimit{Cur: 12 << 30, Max: 12 << 30}
		_ = syscall.Setrlimit(syscall.RLIMIT_AS, &lim)
	}
	if pf := os.Getenv("VERIF_CPUPROFILE"); pf != "" {
		if cf, err := os.Create(pf); err == nil {
			_ = pprof.StartCPUProfile(cf)
			defer pprof.StopCPUProfile()
		}
	}
	enc := json.NewEncoder(f)
	var curCase, curSince atomic.Int64
	curCase.Store(-1)
	go idleWatchdog(&curCase, &curSince)
	for i := *from; i < *to; i++ {
		idx := i
		_ = enc.Encode(workerLine{Start: &idx})
		curSince.Store(time.Now().UnixNano())
		curCase.Store(int64(idx))
		res := runCase(p, env, idx)
		curCase.Store(-1)
		_ = enc.Encode(workerLine{Res: &res})
	}
}

func processCPU() time.Duration {
	var ru syscall.Rusage
	if syscall.Getrusage(syscall.RUSAGE_SELF, &ru) != nil {
		return -1
	}
	return time.Duration(ru.Utime.Nano() + ru.Stime.Nano())
}

// idleWatchdog ends the worker when a case has been running for 30 s and the whole process then uses no CPU over two
// consecutive windows of 5 s: the case is blocked (lock never released, channel never served), which no chunk watchdog needs
// 15 minutes to find out. A case that is busy is left to the supervisor's watchdog; while a property waits for a child process the watchdog stands back.
func idleWatchdog(curCase, curSince *atomic.Int64) {
	for {
		time.Sleep(5 * time.Second)
		c := curCase.Load()
		if c < 0 || core.WaitingForChild.Load() > 0 || time.Since(time.Unix(0, curSince.Load())) < 30*time.Second {
			continue
		}
		idle := 0
		for idle < 2 {
			before := processCPU()
			time.Sleep(5 * time.Second)
			after := processCPU()
			if curCase.Load() != c || core.WaitingForChild.Load() > 0 || before < 0 || after-before > 20*time.Millisecond {
				break
			}
			idle++
		}
		if idle == 2 && curCase.Load() == c {
			buf := make([]byte, 1<<20)
			buf = buf[:runtime.Stack(buf, true)]
			fmt.Fprintf(os.Stderr, "VERIF-DEADLOCK case=%d: running for %s, no CPU use over two windows of 5 s\n%s\n", c, time.Since(time.Unix(0, curSince.Load())).Round(time.Second), topFrames(buf, 120))
			os.Exit(4)
		}
	}
}

// runCase runs one case; a panic that escapes the property's own boundary recovery is reported as a violation.
func runCase(p *core.Property, env *core.Env, idx int) (res core.CaseResult) {
	defer func() {
		if r := recover(); r != nil {
			res = core.CaseResult{Idx: idx, Evals: 1}
			res.Violate("panic(harness-boundary)", fmt.Sprintf("%v\n%s", r, topFrames(debug.Stack(), 30)), map[string]interface{}{"idx": idx})
		}
	}()
	res = p.Run(env, idx)
	res.Idx = idx
	return res
}

func topFrames(stack []byte, n int) string {
	lines := strings.Split(string(stack), "\n")
	if len(lines) > n {
		lines = lines[:n]
	}
	return strings.Join(lines, "\n")
}

// ---------------------------------------------------------------- supervisor

type knownFinding struct {
	Property    string `json:"property"`
	Class       string `json:"class,omitempty"`    // exact class
	ClassRe     string `json:"class_re,omitempty"` // or an anchored regular expression over the class
	Status      string `json:"status"`             // open | fixed
	Commit      string `json:"commit,omitempty"`
	Description string `json:"description"`
	Witness     string `json:"witness,omitempty"`
}

func (k knownFinding) label() string {
	if k.Class != "" {
		return k.Class
	}
	return "re:" + k.ClassRe
}

func (k knownFinding) matches(class string) bool {
	if k.Class != "" {
		return k.Class == class
	}
	if k.ClassRe == "" {
		return false
	}
	re, err := regexp.Compile("^(?:" + k.ClassRe + ")$")
	return err == nil && re.MatchString(class)
}

func loadKnown(root string) []knownFinding {
	b, err := os.ReadFile(filepath.Join(root, "known_findings.json"))
	if err != nil {
		return nil
	}
	var doc struct {
		Findings []knownFinding `json:"findings"`
	}
	if err := json.Unmarshal(b, &doc); err != nil {
		fmt.Fprintln(os.Stderr, "known_findings.json unreadable:", err)
		return nil
	}
	return doc.Findings
}

type chunk struct{ from, to int }

type aggregate struct {
	mu         sync.Mutex
	evals      int
	cases      int
	hashes     map[string]bool
	cover      map[string]int
	samples    map[int]interface{}
	violations []core.Violation
	violIdx    []int
	inconcl    []string
	perClass   map[string]int
	skipped    int
}

func (a *aggregate) hangCount() int {
	a.mu.Lock()
	defer a.mu.Unlock()
	n := 0
	for c, k := range a.perClass {
		if strings.HasPrefix(c, "hang") {
			n += k
		}
	}
	return n
}

func (a *aggregate) add(r *core.CaseResult) {
	a.mu.Lock()
	defer a.mu.Unlock()
	a.cases++
	a.evals += r.Evals
	if r.NonTrivial && r.Hash != "" {
		a.hashes[r.Hash] = true
	}
	for k, v := range r.Cover {
		a.cover[k] += v
	}
	if r.Sample != nil && r.NonTrivial && len(a.samples) < 64 {
		a.samples[r.Idx] = r.Sample
	}
	for _, v := range r.Violations {
		a.perClass[v.Class]++
		if a.perClass[v.Class] > 3 {
			v.Witness = nil // witnesses are written for the first three occurrences of a class only
		}
		a.violations = append(a.violations, v)
		a.violIdx = append(a.violIdx, r.Idx)
	}
	if r.Inconcl != "" {
		a.inconcl = append(a.inconcl, fmt.Sprintf("case %d: %s", r.Idx, r.Inconcl))
	}
}

func supervise(p *core.Property, tier string) int {
	t0 := time.Now()
	root := verifRoot()
	seed := seedFromEnv()
	env := &core.Env{Tier: tier, Seed: seed}
	n := p.NumCases(env)
	workers := runtime.NumCPU()
	if workers > 16 {
		workers = 16
	}
	if p.MaxWorkers > 0 && workers > p.MaxWorkers {
		workers = p.MaxWorkers
	}
	csize := p.ChunkSize
	if csize <= 0 {
		csize = n / (workers * 6)
		if csize < 1 {
			csize = 1
		}
		if csize > 4000 {
			csize = 4000
		}
	}
	timeout := time.Duration(p.ChunkTimeoutS) * time.Second
	if timeout == 0 {
		timeout = 15 * time.Minute
	}
	exe, _ := os.Executable()
	if p.Race {
		race := filepath.Join(filepath.Dir(exe), "vcheck-race")
		if _, err := os.Stat(race); err == nil {
			exe = race
		} else {
			fmt.Printf("INCONCLUSIVE property=%s reason=race binary missing\n", p.ID)
			return 2
		}
	}
	tmp, err := os.MkdirTemp("", "vcheck-"+p.ID+"-")
	if err != nil {
		fmt.Fprintln(os.Stderr, err)
		return 3
	}
	defer os.RemoveAll(tmp)

	_ = os.RemoveAll(filepath.Join(root, "evidence", "witness", p.ID)) // witnesses of earlier runs are stale
	agg := &aggregate{hashes: map[string]bool{}, cover: map[string]int{}, samples: map[int]interface{}{}, perClass: map[string]int{}}
	queue := make(chan chunk, n/csize+2)
	for a := 0; a < n; a += csize {
		b := a + csize
		if b > n {
			b = n
		}
		queue <- chunk{a, b}
	}
	close(queue)
	var wg sync.WaitGroup
	for w := 0; w < workers; w++ {
		wg.Add(1)
		go func(w int) {
			defer wg.Done()
			for c := range queue {
				if agg.hangCount() >= 3 {
					// a tree on which calls hang: three confirmed witnesses are enough, the rest of the list would only burn watchdogs
					agg.mu.Lock()
					agg.skipped += c.to - c.from
					agg.mu.Unlock()
					continue
				}
				runChunk(p, exe, tier, seed, c, tmp, w, timeout, agg)
			}
		}(w)
	}
	wg.Wait()

	// coverage floors
	if p.Floors != nil {
		for _, k := range p.Floors(env) {
			if agg.cover[k] == 0 {
				agg.inconcl = append(agg.inconcl, "coverage floor missed: "+k)
			}
		}
	}
	if agg.cases != n {
		note := fmt.Sprintf("only %d of %d cases completed", agg.cases, n)
		if agg.skipped > 0 {
			note += fmt.Sprintf(" (%d not started after three confirmed hangs)", agg.skipped)
		}
		agg.inconcl = append(agg.inconcl, note)
	}

	// classify violations
	known := loadKnown(root)
	knownHit := map[string]int{}
	var fresh []int
	for i, v := range agg.violations {
		matched := false
		for _, k := range known {
			if k.Property == p.ID && k.Status == "open" && k.matches(v.Class) {
				knownHit[k.label()]++
				matched = true
				break
			}
		}
		if !matched {
			fresh = append(fresh, i)
		}
	}
	var knownClasses []string
	for c := range knownHit {
		knownClasses = append(knownClasses, c)
	}
	sort.Strings(knownClasses)
	for _, c := range knownClasses {
		desc := ""
		for _, k := range known {
			if k.Property == p.ID && k.label() == c {
				desc = k.Description
			}
		}
		fmt.Printf("KNOWN-FINDING: property=%s class=%q observed=%d %s\n", p.ID, c, knownHit[c], desc)
	}
	// write witnesses for fresh violations (first per class gets printed; at most 5 files per class)
	perClass := map[string]int{}
	var freshClasses []string
	wdir := filepath.Join(root, "evidence", "witness", p.ID)
	for _, i := range fresh {
		v := agg.violations[i]
		perClass[v.Class]++
		if perClass[v.Class] == 1 {
			freshClasses = append(freshClasses, v.Class)
		}
		if perClass[v.Class] > 3 {
			continue
		}
		_ = os.MkdirAll(wdir, 0o755)
		w := map[string]interface{}{
			"property": p.ID, "tier": tier, "seed": seed, "idx": agg.violIdx[i],
			"class": v.Class, "detail": v.Detail, "witness": v.Witness,
		}
		b, _ := json.MarshalIndent(w, "", " ")
		path := filepath.Join(wdir, core.HashBytes([]byte(v.Class), []byte(strconv.Itoa(agg.violIdx[i])), []byte(tier), []byte(strconv.FormatInt(seed, 10)))+".json")
		_ = os.WriteFile(path, b, 0o644)
		if perClass[v.Class] == 1 {
			fmt.Printf("VIOLATION property=%s replay=%s class=%q %s\n", p.ID, path, v.Class, core.Abbrev(strings.ReplaceAll(v.Detail, "\n", " | "), 300))
		}
	}
	for _, c := range freshClasses {
		if perClass[c] > 1 {
			fmt.Printf("  (class %q: %d occurrences)\n", c, perClass[c])
		}
	}

	// evidence
	var sampleIdx []int
	for i := range agg.samples {
		sampleIdx = append(sampleIdx, i)
	}
	sort.Ints(sampleIdx)
	var samples []interface{}
	for _, i := range sampleIdx {
		if len(samples) >= 5 {
			break
		}
		samples = append(samples, map[string]interface{}{"case": i, "what": agg.samples[i]})
	}
	if samples == nil {
		samples = []interface{}{}
	}
	status := "held-on-observed"
	exit := 0
	if len(agg.inconcl) > 0 {
		status = "inconclusive"
		exit = 2
	}
	if len(fresh) > 0 {
		status = "violated"
		exit = 1
	}
	exh := false
	if p.Exhaustive != nil {
		exh = p.Exhaustive(env)
	}
	zero := []string{}
	if p.Floors != nil {
		for _, k := range p.Floors(env) {
			if agg.cover[k] == 0 {
				zero = append(zero, k)
			}
		}
	}
	ev := map[string]interface{}{
		"property_id": p.ID,
		"tier":        tier,
		"seed":        seed,
		"level":       p.Level,
		"coverage": map[string]interface{}{
			"evaluations":         agg.evals,
			"cases":               agg.cases,
			"distinct_nontrivial": len(agg.hashes),
			"rule":                p.Rule,
			"samples":             samples,
			"exhaustive":          exh,
			"observed":            agg.cover,
			"floors_missed":       zero,
			"known_findings_hit":  knownHit,
			"fresh_violation_classes": func() map[string]int {
				m := map[string]int{}
				for _, c := range freshClasses {
					m[c] = perClass[c]
				}
				return m
			}(),
			"inconclusive": agg.inconcl,
			"verdict":      status,
		},
		"assumptions": p.Assumptions,
		"wall_s":      time.Since(t0).Seconds(),
		"violations":  len(fresh),
	}
	b, _ := json.MarshalIndent(ev, "", " ")
	_ = os.MkdirAll(filepath.Join(root, "evidence"), 0o755)
	if err := os.WriteFile(filepath.Join(root, "evidence", p.ID+".json"), b, 0o644); err != nil {
		fmt.Fprintln(os.Stderr, "cannot write evidence:", err)
		return 3
	}
	for i, s := range agg.inconcl {
		if i >= 8 {
			fmt.Printf("  (%d more inconclusive notes in the evidence file)\n", len(agg.inconcl)-i)
			break
		}
		if exit == 2 {
			fmt.Printf("INCONCLUSIVE property=%s reason=%s\n", p.ID, s)
		}
	}
	fmt.Printf("%s %s seed=%d cases=%d evaluations=%d distinct_nontrivial=%d known=%d fresh=%d verdict=%s wall=%.1fs\n",
		p.ID, tier, seed, agg.cases, agg.evals, len(agg.hashes), len(agg.violations)-len(fresh), len(fresh), status, time.Since(t0).Seconds())
	return exit
}

// runChunk runs [from,to) in worker processes, restarting after a crash or a hang.
func runChunk(p *core.Property, exe, tier string, seed int64, c chunk, tmp string, w int, timeout time.Duration, agg *aggregate) {
	from := c.from
	attempt := 0
	for from < c.to {
		attempt++
		out := filepath.Join(tmp, fmt.Sprintf("w%d-%d-%d-%d.jsonl", w, c.from, from, attempt))
		errf := out + ".stderr"
		work := filepath.Join(tmp, fmt.Sprintf("work-%d", w))
		_ = os.MkdirAll(work, 0o755)
		cmd := exec.Command(exe, "--worker", "--prop", p.ID, "--tier", tier, "--seed", strconv.FormatInt(seed, 10),
			"--from", strconv.Itoa(from), "--to", strconv.Itoa(c.to), "--out", out, "--work", work)
		ef, _ := os.Create(errf)
		cmd.Stderr = ef
		cmd.Stdout = ef
		cmd.Env = append(os.Environ(), "GOTRACEBACK=single")
		if p.Race {
			cmd.Env = append(cmd.Env, "GORACE=halt_on_error=0 log_path="+filepath.Join(work, "race"), "VERIF_RACE_WORKER=1")
		}
		timedOut := false
		if err := cmd.Start(); err != nil {
			agg.mu.Lock()
			agg.inconcl = append(agg.inconcl, "cannot start worker: "+err.Error())
			agg.mu.Unlock()
			return
		}
		done := make(chan error, 1)
		go func() { done <- cmd.Wait() }()
		var werr error
		select {
		case werr = <-done:
		case <-time.After(timeout):
			timedOut = true
			_ = cmd.Process.Signal(os.Interrupt)
			_ = cmd.Process.Kill()
			werr = <-done
		}
		ef.Close()
		last, lastDone := readResults(out, agg)
		_ = os.Remove(out)
		if werr == nil && !timedOut {
			_ = os.Remove(errf)
			return
		}
		// abnormal end: the case that was started and not finished is the witness
		stderr, _ := os.ReadFile(errf)
		_ = os.Remove(errf)
		if last < 0 {
			agg.mu.Lock()
			agg.inconcl = append(agg.inconcl, fmt.Sprintf("worker died before any case in [%d,%d): %v %s", from, c.to, werr, core.Abbrev(string(stderr), 400)))
			agg.mu.Unlock()
			return
		}
		if lastDone {
			// died between cases (should not happen) — continue after it
			from = last + 1
			continue
		}
		res := core.CaseResult{Idx: last, Evals: 1}
		if timedOut {
			// confirmed-hang rule: re-run that case alone with a generous limit
			if confirmHang(p, exe, tier, seed, last, tmp) {
				res.Violate("hang", fmt.Sprintf("case %d did not finish within %s and again not alone within 120s", last, timeout), map[string]interface{}{"idx": last})
			} else {
				res.Inconcl = "chunk watchdog fired but the case finished when run alone"
			}
		} else if strings.Contains(string(stderr), "VERIF-DEADLOCK case=") {
			res.Violate("hang (blocked: no CPU use while the case was running)", fmt.Sprintf("case %d never returned; the worker's idle watchdog found every goroutine waiting\n%s", last, core.Abbrev(crashHead(string(stderr)), 3000)), map[string]interface{}{"idx": last})
		} else {
			res.Violate("fatal-crash", fmt.Sprintf("worker died in case %d: %v\n%s", last, werr, core.Abbrev(crashHead(string(stderr)), 1500)), map[string]interface{}{"idx": last})
		}
		agg.add(&res)
		from = last + 1
		if agg.hangCount() >= 3 {
			agg.mu.Lock()
			agg.skipped += c.to - from
			agg.mu.Unlock()
			return
		}
	}
}

func crashHead(s string) string {
	// keep the first lines (fatal error / panic message and the top of the first stack)
	lines := strings.Split(s, "\n")
	if len(lines) > 40 {
		lines = lines[:40]
	}
	return strings.Join(lines, "\n")
}

func confirmHang(p *core.Property, exe, tier string, seed int64, idx int, tmp string) bool {
	out := filepath.Join(tmp, fmt.Sprintf("hang-%d.jsonl", idx))
	cmd := exec.Command(exe, "--worker", "--prop", p.ID, "--tier", tier, "--seed", strconv.FormatInt(seed, 10),
		"--from", strconv.Itoa(idx), "--to", strconv.Itoa(idx+1), "--out", out, "--work", tmp)
	if err := cmd.Start(); err != nil {
		return false
	}
	done := make(chan error, 1)
	go func() { done <- cmd.Wait() }()
	select {
	case <-done:
		_ = os.Remove(out)
		return false
	case <-time.After(120 * time.Second):
		_ = cmd.Process.Kill()
		<-done
		_ = os.Remove(out)
		return true
	}
}

// readResults folds a worker log into the aggregate; returns the last started idx and whether it finished.
func readResults(path string, agg *aggregate) (int, bool) {
	f, err := os.Open(path)
	if err != nil {
		return -1, false
	}
	defer f.Close()
	last, lastDone := -1, false
	rd := bufio.NewReaderSize(f, 1<<20)
	for {
		line, err := rd.ReadBytes('\n')
		if len(line) > 0 {
			var wl workerLine
			if json.Unmarshal(line, &wl) == nil {
				if wl.Start != nil {
					last, lastDone = *wl.Start, false
				}
				if wl.Res != nil {
					agg.add(wl.Res)
					lastDone = true
				}
			}
		}
		if err != nil {
			break
		}
	}
	return last, lastDone
}

// ---------------------------------------------------------------- replay

func replay(p *core.Property, path string) int {
	b, err := os.ReadFile(path)
	if err != nil {
		fmt.Fprintln(os.Stderr, err)
		return 3
	}
	var w struct {
		Property string `json:"property"`
		Tier     string `json:"tier"`
		Seed     int64  `json:"seed"`
		Idx      int    `json:"idx"`
		Class    string `json:"class"`
	}
	if err := json.Unmarshal(b, &w); err != nil {
		fmt.Fprintln(os.Stderr, err)
		return 3
	}
	tmp, _ := os.MkdirTemp("", "vreplay-")
	defer os.RemoveAll(tmp)
	env := &core.Env{Tier: w.Tier, Seed: w.Seed, Workdir: tmp, Replay: true}
	res := runCase(p, env, w.Idx)
	out, _ := json.MarshalIndent(res, "", " ")
	fmt.Println(string(out))
	for _, v := range res.Violations {
		if v.Class == w.Class {
			fmt.Printf("VIOLATION property=%s replay=%s class=%q (reproduced)\n", p.ID, path, v.Class)
			return 1
		}
	}
	if len(res.Violations) > 0 {
		fmt.Printf("VIOLATION property=%s replay=%s (other classes than recorded)\n", p.ID, path)
		return 1
	}
	fmt.Println("not reproduced")
	return 0
}
