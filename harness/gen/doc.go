// Package gen holds the seeded workload generators.
package gen

import (
	"fmt"
	"math/rand"
	"strings"

	"verifharness/oracle"
)

type obj = map[string]interface{}

// Kinds of objects G-DOC can generate at top level.
var DocKinds = []string{"swagger", "schema", "parameter", "items", "header", "response", "responses", "operation",
	"pathItem", "paths", "securityScheme", "info", "contact", "license", "tag", "xml", "externalDocs"}

// DocGen generates Swagger 2.0 / draft-4 vocabulary documents in normal form, with the map
// JSON pointer -> kind of every specification object it emitted and a count per (kind, keyword) cell.
type DocGen struct {
	R *rand.Rand
	// Valid restricts the vocabulary to what the Swagger 2.0 meta-schema accepts (C19).
	Valid bool
	// Fragile allows nulls, empty containers, "" and false at any depth of free-form payloads (C14), and the
	// gob-fragile security shapes.
	Fragile bool
	// EmptyRequired allows required string members to be empty (allowed by C01's normal form).
	EmptyRequired bool
	// Refs allows $ref holders.
	Refs bool
	// XOrder decorates properties with x-order extensions of every shape (C06).
	XOrder bool
	// BigMaps lets name-keyed maps (paths, properties) occasionally grow large (13-300 members): code paths that
	// switch algorithm with size (sort implementations, batching) are only reached by such documents.
	BigMaps bool
	// Density scales the probability of optional members (1.0 default).
	Density float64
	MaxDepth int
	// Only, when set, is the single optional (kind, keyword) emitted, and only on the top-level object.
	Only *[2]string
	// Variant selects the value shape in single-feature mode.
	Variant int

	Kinds map[string]string
	Cells map[string]int
	// RefTargets are candidate local reference targets per holder kind ("schema", "parameter", "response").
	RefTargets map[string][]string
}

func NewDocGen(r *rand.Rand) *DocGen {
	return &DocGen{R: r, Density: 1, MaxDepth: 4, Kinds: map[string]string{}, Cells: map[string]int{}}
}

func (g *DocGen) ptr(path []string) string { return oracle.TokensToPointer(path) }

func (g *DocGen) mark(path []string, kind string) { g.Kinds[g.ptr(path)] = kind }

func (g *DocGen) cell(kind, kw string) { g.Cells[kind+"."+kw]++ }

func sub(path []string, t ...string) []string {
	return append(append(make([]string, 0, len(path)+len(t)), path...), t...)
}

// opt decides whether an optional member is emitted.
func (g *DocGen) opt(path []string, kind, kw string, depth int) bool {
	if g.Only != nil {
		return len(path) == 0 && g.Only[0] == kind && g.Only[1] == kw
	}
	p := 0.35 * g.Density / float64(1+depth)
	if depth == 0 {
		p = 0.45 * g.Density
	}
	return g.R.Float64() < p
}

// set records and stores a member.
func (g *DocGen) set(o obj, kind, kw string, v interface{}) {
	o[kw] = v
	g.cell(kind, kw)
}

// ---------------------------------------------------------------- value pools

var hostileNames = []string{
	"a\"b", "back\\slash", "ctl\u0001x", "tab\tname", "nl\nname", "é", "日本語", "😀", "a/b", "a~b", "a%b", "a%2Fb", "^a\\d+$",
	"", " ", "a b", "<tag>&", " sep", "{id}", "a#b", "a?b", "~", "/", "$ref", "x", "0", "-1", "null", "true", "a.b", "'q'",
	"\\u0041", "a\\\"b", "$schema", "default", "type", "properties", "X-Upper",
}

var plainNames = []string{"alpha", "beta", "gamma", "delta", "Pet", "Order", "user_id", "v1", "Item2", "tagName", "limit", "offset"}

func (g *DocGen) pick(ss []string) string { return ss[g.R.Intn(len(ss))] }

// name returns a member name for a free-name map; hostile in about half of the cases.
func (g *DocGen) name() string {
	if g.R.Intn(2) == 0 {
		return g.pick(hostileNames)
	}
	n := g.pick(plainNames)
	if g.R.Intn(3) == 0 {
		n += fmt.Sprint(g.R.Intn(100))
	}
	return n
}

// names returns n distinct names.
func (g *DocGen) names(n int) []string {
	seen := map[string]bool{}
	var out []string
	for tries := 0; len(out) < n && tries < 50; tries++ {
		nm := g.name()
		if !seen[nm] {
			seen[nm] = true
			out = append(out, nm)
		}
	}
	return out
}

func (g *DocGen) count(max int) int { return 1 + g.R.Intn(max) }

var textPool = []string{"plain text", "with \"quotes\"", "uni é 日本", "line\nbreak", "<b>html</b> & more", "back\\slash", "tab\there", "\u0001ctl", "x"}

func (g *DocGen) text() string { return g.pick(textPool) }

// reqText is for required string members.
func (g *DocGen) reqText() string {
	if g.EmptyRequired && g.R.Intn(6) == 0 {
		return ""
	}
	return g.text()
}

var exactFloats = []float64{0, 1, -1, 0.5, -2.25, 3, 100, 1e15, 1e21, 0.125, 7, 42, -1e9, 65536}

func (g *DocGen) num() float64 { return exactFloats[g.R.Intn(len(exactFloats))] }

var exactInts = []float64{0, 1, 2, 5, 10, 255, 1 << 31, 1 << 53}

func (g *DocGen) nat() float64 { return exactInts[g.R.Intn(len(exactInts))] }

// payload returns an arbitrary JSON value. top=true means it is the direct value of a member of a
// specification object: in normal form it is then neither null nor empty nor false.
func (g *DocGen) payload(depth int, top bool) interface{} {
	if g.Fragile && g.R.Intn(4) == 0 {
		switch g.R.Intn(6) {
		case 0:
			if !top {
				return nil
			}
			return []interface{}{nil}
		case 1:
			return []interface{}{}
		case 2:
			return obj{}
		case 3:
			return ""
		case 4:
			return false
		default:
			return []interface{}{obj{}, []interface{}{}, nil, ""}
		}
	}
	k := g.R.Intn(7)
	if depth >= 3 && k >= 5 {
		k = g.R.Intn(5)
	}
	switch k {
	case 0:
		return g.text()
	case 1:
		return g.num() // zero is a legitimate payload (nothing in the normal form excludes the number 0)
	case 2:
		return true
	case 3:
		if top {
			return g.text() + "!"
		}
		if g.R.Intn(2) == 0 {
			return false
		}
		return float64(0)
	case 4:
		return g.nat() + 1
	case 5:
		n := g.count(3)
		a := make([]interface{}, 0, n)
		for i := 0; i < n; i++ {
			a = append(a, g.payload(depth+1, false))
		}
		return a
	default:
		o := obj{}
		for _, nm := range g.names(g.count(3)) {
			o[nm] = g.payload(depth+1, false)
		}
		return o
	}
}

// extension names
func (g *DocGen) extName() string {
	suffix := []string{"foo", "nullable", "order", "go-name", "é", "a\"b", "a\\b", "", "a/b", "x-", "ms-enum", "0", "Go-Name", "UPPER"}
	return "x-" + g.pick(suffix)
}

// ext adds vendor extensions to o when chosen.
func (g *DocGen) ext(o obj, path []string, kind string, depth int) {
	if !g.opt(path, kind, "x-", depth) {
		return
	}
	n := g.count(2)
	if g.Only != nil {
		n = 1 + g.Variant%2
	}
	for i := 0; i < n; i++ {
		nm := g.extName()
		if g.XOrder && nm == "x-order" {
			continue
		}
		o[nm] = g.payload(1, true)
		if nm == "x-nullable" && g.R.Intn(2) == 0 {
			o[nm] = g.R.Intn(2) == 0 // the well-known extensions carry the values tools give them
		}
		if g.XOrder && g.R.Intn(4) == 0 {
			// the decoder takes any case of the prefix and keeps the name as written: "X-foo" next to "x-foo" are two members
			o["X-"+nm[2:]] = g.payload(1, true)
		}
	}
	g.cell(kind, "x-")
}

var mimePool = []string{"application/json", "application/xml", "text/plain", "application/vnd.api+json; charset=utf-8", "*/*"}

func (g *DocGen) mimes() []interface{} {
	n := g.count(2)
	seen := map[string]bool{}
	var out []interface{}
	for i := 0; i < n; i++ {
		m := g.pick(mimePool)
		if !seen[m] {
			seen[m] = true
			out = append(out, m)
		}
	}
	return out
}

func (g *DocGen) schemes() []interface{} {
	all := []string{"http", "https", "ws", "wss"}
	g.R.Shuffle(len(all), func(i, j int) { all[i], all[j] = all[j], all[i] })
	n := g.count(3)
	var out []interface{}
	for _, s := range all[:n] {
		out = append(out, s)
	}
	return out
}

var urlPool = []string{"http://example.com/docs", "https://example.org/a/b?c=d", "http://h/p#frag", "urn:x:y", "mailto:a@b.c"}

// ---------------------------------------------------------------- object kinds

// Gen generates a top-level object of the given kind.
func (g *DocGen) Gen(kind string) obj {
	var p []string
	switch kind {
	case "swagger":
		return g.Swagger(p)
	case "schema":
		return g.Schema(p, 0)
	case "parameter":
		return g.Parameter(p, 0, false)
	case "items":
		return g.Items(p, 0)
	case "header":
		return g.Header(p, 0)
	case "response":
		return g.Response(p, 0, false)
	case "responses":
		return g.Responses(p, 0)
	case "operation":
		return g.Operation(p, 0)
	case "pathItem":
		return g.PathItem(p, 0)
	case "paths":
		return g.Paths(p, 0)
	case "securityScheme":
		return g.SecurityScheme(p, 0)
	case "info":
		return g.Info(p, 0)
	case "contact":
		return g.Contact(p, 0)
	case "license":
		return g.License(p, 0)
	case "tag":
		return g.Tag(p, 0)
	case "xml":
		return g.XML(p, 0)
	case "externalDocs":
		return g.ExternalDocs(p, 0)
	}
	panic("unknown kind " + kind)
}

func (g *DocGen) Info(path []string, depth int) obj {
	const k = "info"
	g.mark(path, k)
	o := obj{}
	g.set(o, k, "title", g.reqText())
	g.set(o, k, "version", g.reqText())
	if g.opt(path, k, "description", depth) {
		g.set(o, k, "description", g.text())
	}
	if g.opt(path, k, "termsOfService", depth) {
		g.set(o, k, "termsOfService", g.text())
	}
	if g.opt(path, k, "contact", depth) {
		g.set(o, k, "contact", g.contactNonEmpty(sub(path, "contact"), depth+1))
	}
	if g.opt(path, k, "license", depth) {
		g.set(o, k, "license", g.License(sub(path, "license"), depth+1))
	}
	g.ext(o, path, k, depth)
	return o
}

func (g *DocGen) contactNonEmpty(path []string, depth int) obj {
	for {
		c := g.Contact(path, depth)
		if len(c) > 0 {
			return c
		}
		if g.Only != nil {
			c["name"] = "n"
			g.cell("contact", "name")
			return c
		}
	}
}

func (g *DocGen) Contact(path []string, depth int) obj {
	const k = "contact"
	g.mark(path, k)
	o := obj{}
	if g.opt(path, k, "name", depth) {
		g.set(o, k, "name", g.text())
	}
	if g.opt(path, k, "url", depth) {
		g.set(o, k, "url", g.pick(urlPool))
	}
	if g.opt(path, k, "email", depth) {
		g.set(o, k, "email", "a@example.com")
	}
	g.ext(o, path, k, depth)
	return o
}

func (g *DocGen) License(path []string, depth int) obj {
	const k = "license"
	g.mark(path, k)
	o := obj{}
	g.set(o, k, "name", g.reqText())
	if g.opt(path, k, "url", depth) {
		g.set(o, k, "url", g.pick(urlPool))
	}
	g.ext(o, path, k, depth)
	return o
}

func (g *DocGen) ExternalDocs(path []string, depth int) obj {
	const k = "externalDocs"
	g.mark(path, k)
	o := obj{}
	if g.EmptyRequired && !g.Valid && g.R.Intn(8) == 0 {
		g.set(o, k, "url", "")
	} else {
		g.set(o, k, "url", g.pick(urlPool))
	}
	if g.opt(path, k, "description", depth) {
		g.set(o, k, "description", g.text())
	}
	g.ext(o, path, k, depth)
	return o
}

func (g *DocGen) Tag(path []string, depth int) obj {
	const k = "tag"
	g.mark(path, k)
	o := obj{}
	g.set(o, k, "name", g.reqText())
	if g.opt(path, k, "description", depth) {
		g.set(o, k, "description", g.text())
	}
	if g.opt(path, k, "externalDocs", depth) {
		g.set(o, k, "externalDocs", g.ExternalDocs(sub(path, "externalDocs"), depth+1))
	}
	g.ext(o, path, k, depth)
	return o
}

func (g *DocGen) XML(path []string, depth int) obj {
	const k = "xml"
	g.mark(path, k)
	o := obj{}
	if g.opt(path, k, "name", depth) {
		g.set(o, k, "name", g.text())
	}
	if g.opt(path, k, "namespace", depth) {
		g.set(o, k, "namespace", g.pick(urlPool))
	}
	if g.opt(path, k, "prefix", depth) {
		g.set(o, k, "prefix", "pfx")
	}
	if g.opt(path, k, "attribute", depth) {
		g.set(o, k, "attribute", true)
	}
	if g.opt(path, k, "wrapped", depth) {
		g.set(o, k, "wrapped", true)
	}
	g.ext(o, path, k, depth)
	return o
}

func (g *DocGen) xmlNonEmpty(path []string, depth int) obj {
	o := g.XML(path, depth)
	if len(o) == 0 {
		g.set(o, "xml", "name", g.text())
	}
	return o
}

// validations common to parameter, items, header (and schema).
func (g *DocGen) commonValidations(o obj, path []string, kind string, depth int) {
	if g.opt(path, kind, "maximum", depth) {
		g.set(o, kind, "maximum", g.num())
	}
	if g.opt(path, kind, "exclusiveMaximum", depth) {
		g.set(o, kind, "exclusiveMaximum", true)
		if g.Valid {
			if _, ok := o["maximum"]; !ok {
				g.set(o, kind, "maximum", g.num()) // draft-4 dependency
			}
		}
	}
	if g.opt(path, kind, "minimum", depth) {
		g.set(o, kind, "minimum", g.num())
	}
	if g.opt(path, kind, "exclusiveMinimum", depth) {
		g.set(o, kind, "exclusiveMinimum", true)
		if g.Valid {
			if _, ok := o["minimum"]; !ok {
				g.set(o, kind, "minimum", g.num())
			}
		}
	}
	if g.opt(path, kind, "maxLength", depth) {
		g.set(o, kind, "maxLength", g.nat())
	}
	if g.opt(path, kind, "minLength", depth) {
		g.set(o, kind, "minLength", g.nat())
	}
	if g.opt(path, kind, "pattern", depth) {
		g.set(o, kind, "pattern", g.pick([]string{"^a\\d+$", "[a-z]*", "^\"q\"$", "\\\\", "^é+$"}))
	}
	if g.opt(path, kind, "maxItems", depth) {
		g.set(o, kind, "maxItems", g.nat())
	}
	if g.opt(path, kind, "minItems", depth) {
		g.set(o, kind, "minItems", g.nat())
	}
	if g.opt(path, kind, "uniqueItems", depth) {
		g.set(o, kind, "uniqueItems", true)
	}
	if g.opt(path, kind, "multipleOf", depth) {
		v := g.num()
		if g.Valid && v <= 0 {
			v = 0.5
		}
		g.set(o, kind, "multipleOf", v)
	}
	if g.opt(path, kind, "enum", depth) {
		n := g.count(3)
		seen := map[string]bool{}
		var a []interface{}
		for i := 0; i < n; i++ {
			v := g.payload(1, false)
			if v == nil && !g.Fragile {
				v = "nil"
			}
			key := oracle.Text(v)
			if !seen[key] {
				seen[key] = true
				a = append(a, v)
			}
		}
		g.set(o, kind, "enum", a)
	}
}

var simpleTypes = []string{"string", "number", "integer", "boolean"}

// simpleSchema fills type/format/items/collectionFormat/default of parameter, header, items.
func (g *DocGen) simpleSchema(o obj, path []string, kind string, depth int, allowMulti, allowFile bool) {
	tp := g.pick(simpleTypes)
	wantItems := g.opt(path, kind, "items", depth) || g.opt(path, kind, "collectionFormat", depth)
	if g.Only != nil && len(path) == 0 && g.Only[0] == kind && (g.Only[1] == "items" || g.Only[1] == "collectionFormat") {
		wantItems = true
	}
	if wantItems && depth < g.MaxDepth {
		tp = "array"
	} else if allowFile && g.R.Intn(8) == 0 {
		tp = "file"
	}
	g.set(o, kind, "type", tp)
	if tp == "array" {
		g.set(o, kind, "items", g.Items(sub(path, "items"), depth+1))
		if g.Only == nil && g.R.Intn(2) == 0 || g.Only != nil && g.Only[1] == "collectionFormat" {
			cf := []string{"csv", "ssv", "tsv", "pipes"}
			if allowMulti {
				cf = append(cf, "multi")
			}
			g.set(o, kind, "collectionFormat", g.pick(cf))
		}
	}
	if g.opt(path, kind, "format", depth) {
		g.set(o, kind, "format", g.pick([]string{"int32", "int64", "date-time", "byte", "custom fmt"}))
	}
	if g.opt(path, kind, "default", depth) {
		g.set(o, kind, "default", g.payload(1, true))
	}
}

func (g *DocGen) Items(path []string, depth int) obj {
	const k = "items"
	g.mark(path, k)
	o := obj{}
	if g.Refs && !g.Valid && g.Only == nil && g.R.Intn(10) == 0 {
		// the model gives items a $ref (the Swagger meta-schema does not)
		o["$ref"] = "#/definitions/" + g.pick(plainNames)
		return o
	}
	g.simpleSchema(o, path, k, depth, false, false)
	g.commonValidations(o, path, k, depth)
	g.ext(o, path, k, depth)
	return o
}

func (g *DocGen) Header(path []string, depth int) obj {
	const k = "header"
	g.mark(path, k)
	o := obj{}
	g.simpleSchema(o, path, k, depth, false, false)
	g.commonValidations(o, path, k, depth)
	if g.opt(path, k, "description", depth) {
		g.set(o, k, "description", g.text())
	}
	g.ext(o, path, k, depth)
	return o
}

func (g *DocGen) localRef(kind string) (string, bool) {
	if !g.Refs {
		return "", false
	}
	c := g.RefTargets[kind]
	if len(c) == 0 {
		return "", false
	}
	return c[g.R.Intn(len(c))], true
}

// Parameter generates a parameter; allowRef lets it be a bare $ref holder.
func (g *DocGen) Parameter(path []string, depth int, allowRef bool) obj {
	const k = "parameter"
	g.mark(path, k)
	o := obj{}
	if allowRef && g.Only == nil && g.R.Intn(5) == 0 {
		if g.Valid && g.Refs && g.R.Intn(3) == 0 {
			o["$ref"] = "other.json#/parameters/Limit" // chain of two hops in the sibling document
			g.cell(k, "$ref")
			return o
		}
		if r, ok := g.localRef("parameter"); ok {
			o["$ref"] = r
			g.cell(k, "$ref")
			return o
		}
	}
	in := g.pick([]string{"query", "header", "path", "formData", "body"})
	if g.Only != nil && len(path) == 0 && g.Only[0] == k {
		switch g.Only[1] {
		case "schema":
			in = "body"
		case "allowEmptyValue":
			in = g.pick([]string{"query", "formData"})
		case "required", "description", "x-", "":
		default:
			in = g.pick([]string{"query", "header", "path", "formData"})
		}
	}
	if g.EmptyRequired && !g.Valid && g.R.Intn(8) == 0 {
		g.set(o, k, "name", "")
	} else {
		g.set(o, k, "name", g.name()+"p")
	}
	g.set(o, k, "in", in)
	if g.opt(path, k, "description", depth) {
		g.set(o, k, "description", g.text())
	}
	if in == "path" {
		g.set(o, k, "required", true)
	} else if g.opt(path, k, "required", depth) {
		g.set(o, k, "required", true)
	}
	if in == "body" {
		g.set(o, k, "schema", g.Schema(sub(path, "schema"), depth+1))
		if !g.Valid && !g.Fragile && g.Only == nil && g.R.Intn(6) == 0 {
			// a body parameter that also carries members of the other parameter forms: the codec reads and writes them whatever "in" says
			g.simpleSchema(o, path, k, depth, false, false)
			g.commonValidations(o, path, k, depth)
			g.cell(k, "body-with-simple-schema-members")
		}
	} else {
		g.simpleSchema(o, path, k, depth, in == "query" || in == "formData", in == "formData")
		g.commonValidations(o, path, k, depth)
		if (in == "query" || in == "formData") && g.opt(path, k, "allowEmptyValue", depth) {
			g.set(o, k, "allowEmptyValue", true)
		}
	}
	g.ext(o, path, k, depth)
	return o
}

func (g *DocGen) Response(path []string, depth int, allowRef bool) obj {
	const k = "response"
	g.mark(path, k)
	o := obj{}
	if allowRef && g.Only == nil && g.R.Intn(5) == 0 {
		if r, ok := g.localRef("response"); ok {
			o["$ref"] = r
			g.cell(k, "$ref")
			return o
		}
	}
	if g.EmptyRequired && g.R.Intn(6) == 0 {
		g.set(o, k, "description", "")
	} else {
		g.set(o, k, "description", g.text())
	}
	if g.opt(path, k, "schema", depth) {
		g.set(o, k, "schema", g.Schema(sub(path, "schema"), depth+1))
	}
	if g.opt(path, k, "headers", depth) {
		h := obj{}
		for _, nm := range g.names(g.count(2)) {
			h[nm] = g.Header(sub(path, "headers", nm), depth+1)
		}
		g.set(o, k, "headers", h)
	}
	if g.opt(path, k, "examples", depth) {
		e := obj{}
		for i, n := 0, g.count(2); i < n; i++ {
			e[g.pick(mimePool)] = g.payload(1, true)
		}
		g.set(o, k, "examples", e)
	}
	g.ext(o, path, k, depth)
	return o
}

func (g *DocGen) Responses(path []string, depth int) obj {
	const k = "responses"
	g.mark(path, k)
	o := obj{}
	codes := []string{"200", "201", "204", "400", "404", "500", "999"}
	if !g.Fragile && !g.Valid {
		codes = append(codes, "099") // three digits with a leading zero: admitted by the meta-schema pattern
		codes = append(codes, "0")   // not a status code, but a numeric member name the codec keeps (next to "default" it must stay itself)
	}
	n := g.count(2)
	if g.Only != nil {
		n = 1
	}
	useDefault := g.R.Intn(2) == 0
	if g.Only != nil && len(path) == 0 && g.Only[0] == k {
		useDefault = g.Only[1] == "default"
		if g.Only[1] == "code" || g.Only[1] == "x-" {
			useDefault = false
		}
	}
	if useDefault {
		o["default"] = g.Response(sub(path, "default"), depth+1, true)
		g.cell(k, "default")
		n--
	}
	for i := 0; i < n || len(o) == 0; i++ {
		c := g.pick(codes)
		if _, ok := o[c]; ok {
			continue
		}
		o[c] = g.Response(sub(path, c), depth+1, true)
		g.cell(k, "code")
	}
	g.ext(o, path, k, depth)
	return o
}

func (g *DocGen) securityReqs(defined []string) []interface{} {
	n := g.count(2)
	var out []interface{}
	for i := 0; i < n; i++ {
		req := obj{}
		m := g.count(2)
		for j := 0; j < m; j++ {
			nm := g.pick(plainNames)
			if len(defined) > 0 {
				nm = defined[g.R.Intn(len(defined))]
			}
			var scopes []interface{}
			if g.Fragile && g.R.Intn(2) == 0 {
				scopes = []interface{}{}
			} else {
				scopes = []interface{}{"read:" + g.pick(plainNames)}
				if g.R.Intn(2) == 0 {
					scopes = append(scopes, "write")
				}
				// scope names are free text: white space inside, at either end, the empty name, hostile characters
				switch g.R.Intn(6) {
				case 0:
					scopes = append(scopes, []interface{}{"read pets", "admin\tall", " padded ", "line\nbreak", "nb\u00a0sp"}[g.R.Intn(5)])
				case 1:
					scopes = append(scopes, g.name())
				case 2:
					if g.R.Intn(3) == 0 {
						scopes = append(scopes, "")
					}
				}
			}
			req[nm] = scopes
		}
		out = append(out, req)
	}
	return out
}

func (g *DocGen) Operation(path []string, depth int) obj {
	const k = "operation"
	g.mark(path, k)
	o := obj{}
	if g.opt(path, k, "tags", depth) {
		g.set(o, k, "tags", []interface{}{g.text(), "t2"})
	}
	if g.opt(path, k, "summary", depth) {
		g.set(o, k, "summary", g.text())
	}
	if g.opt(path, k, "description", depth) {
		g.set(o, k, "description", g.text())
	}
	if g.opt(path, k, "externalDocs", depth) {
		g.set(o, k, "externalDocs", g.ExternalDocs(sub(path, "externalDocs"), depth+1))
	}
	if g.opt(path, k, "operationId", depth) {
		g.set(o, k, "operationId", g.name()+"Op")
	}
	if g.opt(path, k, "produces", depth) {
		g.set(o, k, "produces", g.mimes())
	}
	if g.opt(path, k, "consumes", depth) {
		g.set(o, k, "consumes", g.mimes())
	}
	if g.opt(path, k, "parameters", depth) {
		g.set(o, k, "parameters", g.paramList(sub(path, "parameters"), depth+1))
	}
	g.set(o, k, "responses", g.Responses(sub(path, "responses"), depth+1))
	if g.opt(path, k, "schemes", depth) {
		g.set(o, k, "schemes", g.schemes())
	}
	if g.opt(path, k, "deprecated", depth) {
		g.set(o, k, "deprecated", true)
	}
	if g.opt(path, k, "security", depth) {
		if g.Fragile && g.R.Intn(3) == 0 {
			switch g.R.Intn(2) {
			case 0:
				g.set(o, k, "security", []interface{}{})
			default:
				g.set(o, k, "security", []interface{}{obj{}})
			}
		} else {
			g.set(o, k, "security", g.securityReqs(nil))
		}
	}
	g.ext(o, path, k, depth)
	return o
}

func (g *DocGen) paramList(path []string, depth int) []interface{} {
	n := g.count(3)
	if g.Only != nil {
		n = 1
	}
	seen := map[string]bool{}
	hasBody := false
	var out []interface{}
	for i := 0; i < n; i++ {
		p := g.Parameter(sub(path, fmt.Sprint(len(out))), depth, true)
		key := fmt.Sprint(p["name"], "|", p["in"], "|", p["$ref"])
		if seen[key] || (p["in"] == "body" && hasBody) {
			// unique (name, in) and one body parameter at most; drop the kind marks of the rejected one
			g.dropKinds(sub(path, fmt.Sprint(len(out))))
			continue
		}
		seen[key] = true
		if p["in"] == "body" {
			hasBody = true
		}
		out = append(out, p)
	}
	if len(out) == 0 {
		out = append(out, g.Parameter(sub(path, "0"), depth, false))
	}
	return out
}

func (g *DocGen) dropKinds(path []string) {
	pre := g.ptr(path)
	for k := range g.Kinds {
		if k == pre || strings.HasPrefix(k, pre+"/") {
			delete(g.Kinds, k)
		}
	}
}

var opNames = []string{"get", "put", "post", "delete", "options", "head", "patch"}

func (g *DocGen) PathItem(path []string, depth int) obj {
	const k = "pathItem"
	g.mark(path, k)
	o := obj{}
	if g.Refs && (g.Only == nil && g.R.Intn(8) == 0 || g.Only != nil && len(path) == 0 && g.Only[0] == k && g.Only[1] == "$ref") {
		if g.Valid {
			o["$ref"] = "other.json#/paths/~1pets"
		} else {
			o["$ref"] = g.pick([]string{"other.json#/paths/~1pets", "#/paths/~1x", "http://example.com/p.json#/paths/~1a~1%7Bid%7D"})
		}
		g.cell(k, "$ref")
		return o
	}
	for _, op := range opNames {
		if g.opt(path, k, op, depth) {
			g.set(o, k, op, g.Operation(sub(path, op), depth+1))
		}
	}
	if g.opt(path, k, "parameters", depth) {
		g.set(o, k, "parameters", g.paramList(sub(path, "parameters"), depth+1))
	}
	g.ext(o, path, k, depth)
	if len(o) == 0 && g.Only == nil {
		g.set(o, k, "get", g.Operation(sub(path, "get"), depth+1))
	}
	return o
}

var pathNames = []string{"/", "/pets", "/pets/{id}", "/a b", "/é", "/a\"b", "/a~b/c", "/x/{y}/z", "/%7Bq%7D", "/a\\b"}

func (g *DocGen) Paths(path []string, depth int) obj {
	const k = "paths"
	g.mark(path, k)
	o := obj{}
	n := g.R.Intn(3)
	if g.BigMaps && g.Only == nil && g.R.Intn(12) == 0 {
		big := 128 + g.R.Intn(120)
		for i := 0; i < big; i++ {
			nm := fmt.Sprintf("/big/%d", i)
			g.mark(sub(path, nm), "pathItem")
			o[nm] = obj{"x-i": float64(i)}
		}
		g.cell(k, "big-paths-map")
	}
	if g.Only != nil && len(path) == 0 && g.Only[0] == k && g.Only[1] == "/" {
		n = 1
	} else if g.Only != nil {
		n = 0
	}
	for i := 0; i < n; i++ {
		nm := g.pick(pathNames)
		if _, ok := o[nm]; ok {
			continue
		}
		o[nm] = g.PathItem(sub(path, nm), depth+1)
		g.cell(k, "/")
	}
	g.ext(o, path, k, depth)
	return o
}

func (g *DocGen) SecurityScheme(path []string, depth int) obj {
	const k = "securityScheme"
	g.mark(path, k)
	o := obj{}
	flavour := g.R.Intn(6)
	if g.Only != nil {
		flavour = g.Variant % 6
		if g.Only[0] == k {
			switch g.Only[1] {
			case "scopes", "flow":
				flavour = 2 + g.Variant%4
			case "authorizationUrl":
				flavour = []int{2, 5}[g.Variant%2]
			case "tokenUrl":
				flavour = 3 + g.Variant%3
			case "name", "in":
				flavour = 1
			}
		}
	}
	urlv := func() string {
		if g.EmptyRequired && !g.Valid && g.R.Intn(8) == 0 {
			return ""
		}
		return g.pick(urlPool)
	}
	switch flavour {
	case 0:
		g.set(o, k, "type", "basic")
	case 1:
		g.set(o, k, "type", "apiKey")
		g.set(o, k, "name", g.reqText())
		g.set(o, k, "in", g.pick([]string{"header", "query"}))
	default:
		g.set(o, k, "type", "oauth2")
		flow := []string{"implicit", "password", "application", "accessCode"}[flavour-2]
		g.set(o, k, "flow", flow)
		if flow == "implicit" || flow == "accessCode" {
			g.set(o, k, "authorizationUrl", urlv())
		}
		if flow != "implicit" {
			g.set(o, k, "tokenUrl", urlv())
		}
		if g.opt(path, k, "scopes", depth) {
			sc := obj{}
			for _, nm := range g.names(g.count(2)) {
				sc[nm] = g.text()
			}
			g.set(o, k, "scopes", sc)
		}
	}
	if g.opt(path, k, "description", depth) {
		g.set(o, k, "description", g.text())
	}
	g.ext(o, path, k, depth)
	return o
}

// reserved lists (lower-case) names an unknown schema keyword must avoid: every JSON name of the model's schema.
var schemaReserved = map[string]bool{}

func init() {
	for _, n := range []string{"id", "$ref", "$schema", "description", "type", "nullable", "format", "title", "default", "maximum",
		"exclusivemaximum", "minimum", "exclusiveminimum", "maxlength", "minlength", "pattern", "maxitems", "minitems", "uniqueitems",
		"multipleof", "enum", "maxproperties", "minproperties", "required", "items", "allof", "oneof", "anyof", "not", "properties",
		"additionalproperties", "patternproperties", "dependencies", "additionalitems", "definitions", "discriminator", "readonly",
		"xml", "externaldocs", "example"} {
		schemaReserved[n] = true
	}
}

var unknownKeywords = []string{"const", "examples", "if", "contentMediaType", "deprecated", "é", "a\"b", "my keyword", "$id", "$comment", "a\\b", ""}

// ValidSiblingRefs are references into the sibling document used by schema-valid documents (C19).
var ValidSiblingRefs = []string{"other.json#/definitions/Shared", "other.json#/definitions/a~1b", "./other.json#/definitions/Tree"}

// SiblingDoc is the document served next to a schema-valid root: well-founded, with a cycle among its definitions.
func SiblingDoc() map[string]interface{} {
	return obj{
		"definitions": obj{
			"Shared": obj{"type": "object", "title": "shared", "properties": obj{"id": obj{"type": "integer", "format": "int64"}, "tree": obj{"$ref": "#/definitions/Tree"}}},
			"a/b":    obj{"type": "string", "description": "escaped name"},
			"Tree":   obj{"type": "object", "properties": obj{"children": obj{"type": "array", "items": obj{"$ref": "#/definitions/Tree"}}}},
		},
		"parameters": obj{
			"Limit": obj{"$ref": "#/parameters/limit"}, // a second hop whose name differs by case only
			"limit": obj{"name": "limit", "in": "query", "type": "integer", "format": "int32"},
		},
		"paths": obj{"/pets": obj{
			"get": obj{"operationId": "listPets", "responses": obj{"200": obj{"description": "ok", "schema": obj{"$ref": "#/definitions/Shared"}}, "default": obj{"description": ""}}},
			"parameters": []interface{}{obj{"name": "limit", "in": "query", "type": "integer", "minimum": float64(0)}},
		}},
	}
}

// SchemaRefPool is the pool of canonical reference texts for schema $refs when no local targets are known.
var SchemaRefPool = []string{"#/definitions/Pet", "#/definitions/a~1b", "other.json#/definitions/X", "http://example.com/s.json#/definitions/Y",
	"sub/dir/file.json", "#/definitions/%C3%A9", "../up.json#/a/0", "file:///abs/path.json#/definitions/Z", "#/x%20y"}

func (g *DocGen) Schema(path []string, depth int) obj {
	const k = "schema"
	g.mark(path, k)
	o := obj{}
	deep := depth >= g.MaxDepth
	if g.Refs && g.Only == nil && g.R.Intn(6) == 0 {
		if r, ok := g.localRef("schema"); ok && (!g.Valid || g.R.Intn(3) != 0) {
			o["$ref"] = r
		} else if g.Valid {
			o["$ref"] = g.pick(ValidSiblingRefs) // a definition of the sibling document (see SiblingDoc)
		} else {
			o["$ref"] = g.pick(SchemaRefPool)
		}
		g.cell(k, "$ref")
		if g.R.Intn(3) != 0 {
			return o
		}
	} else if g.Only != nil && len(path) == 0 && g.Only[0] == k && g.Only[1] == "$ref" {
		o["$ref"] = SchemaRefPool[g.Variant%len(SchemaRefPool)]
		g.cell(k, "$ref")
		return o
	}
	subSchema := func(kw string, toks ...string) obj { return g.Schema(sub(path, append([]string{kw}, toks...)...), depth+1) }
	// type
	if g.opt(path, k, "type", depth) {
		types := []string{"object", "array", "string", "number", "integer", "boolean", "null"}
		multi := g.R.Intn(4) == 0
		if g.Only != nil {
			multi = g.Variant%2 == 1
		}
		if multi {
			g.R.Shuffle(len(types), func(i, j int) { types[i], types[j] = types[j], types[i] })
			var a []interface{}
			for _, t := range types[:2+g.R.Intn(2)] {
				a = append(a, t)
			}
			g.set(o, k, "type", a)
		} else {
			g.set(o, k, "type", g.pick(types))
		}
	}
	for _, kw := range []string{"format", "title", "description", "discriminator"} {
		if g.opt(path, k, kw, depth) {
			g.set(o, k, kw, g.text())
		}
	}
	if g.opt(path, k, "default", depth) {
		g.set(o, k, "default", g.payload(1, true))
	}
	if g.opt(path, k, "example", depth) {
		g.set(o, k, "example", g.payload(1, true))
	}
	g.commonValidations(o, path, k, depth)
	if g.opt(path, k, "maxProperties", depth) {
		g.set(o, k, "maxProperties", g.nat())
	}
	if g.opt(path, k, "minProperties", depth) {
		g.set(o, k, "minProperties", g.nat())
	}
	if g.opt(path, k, "required", depth) {
		var a []interface{}
		for _, nm := range g.names(g.count(2)) {
			a = append(a, nm)
		}
		g.set(o, k, "required", a)
	}
	if g.opt(path, k, "readOnly", depth) {
		g.set(o, k, "readOnly", true)
	}
	if g.opt(path, k, "xml", depth) {
		g.set(o, k, "xml", g.xmlNonEmpty(sub(path, "xml"), depth+1))
	}
	if g.opt(path, k, "externalDocs", depth) {
		g.set(o, k, "externalDocs", g.ExternalDocs(sub(path, "externalDocs"), depth+1))
	}
	if !deep {
		if g.opt(path, k, "items", depth) {
			tuple := g.R.Intn(3) == 0
			if g.Only != nil {
				tuple = g.Variant%2 == 1
			}
			if tuple && !g.Valid {
				n := g.count(2)
				var a []interface{}
				for i := 0; i < n; i++ {
					a = append(a, subSchema("items", fmt.Sprint(i)))
				}
				g.set(o, k, "items", a)
			} else if tuple {
				// the Swagger meta-schema wants at least one schema in a tuple
				g.set(o, k, "items", []interface{}{subSchema("items", "0")})
			} else {
				g.set(o, k, "items", subSchema("items"))
			}
		}
		if g.opt(path, k, "allOf", depth) {
			n := g.count(2)
			var a []interface{}
			for i := 0; i < n; i++ {
				a = append(a, subSchema("allOf", fmt.Sprint(i)))
			}
			g.set(o, k, "allOf", a)
		}
		if g.opt(path, k, "properties", depth) {
			g.set(o, k, "properties", g.schemaMap(path, "properties", depth))
		}
		if g.opt(path, k, "additionalProperties", depth) {
			v := g.R.Intn(3)
			if g.Only != nil {
				v = g.Variant % 3
			}
			switch v {
			case 0:
				g.set(o, k, "additionalProperties", true)
			case 1:
				g.set(o, k, "additionalProperties", false)
			default:
				g.set(o, k, "additionalProperties", subSchema("additionalProperties"))
			}
		}
	}
	if !g.Valid {
		// draft-4 keywords the Swagger schema object does not admit, and unknown keywords
		if g.opt(path, k, "id", depth) {
			g.set(o, k, "id", g.pick([]string{"http://example.com/schemas/a.json", "urn:id", "sub/", "#frag"}))
		}
		if g.opt(path, k, "$schema", depth) {
			g.set(o, k, "$schema", g.pick([]string{"http://json-schema.org/draft-04/schema", "http://example.com/meta?x=1", "http://json-schema.org/draft-04/schema#"}))
		}
		if !deep {
			for _, kw := range []string{"anyOf", "oneOf"} {
				if g.opt(path, k, kw, depth) {
					n := g.count(2)
					var a []interface{}
					for i := 0; i < n; i++ {
						a = append(a, subSchema(kw, fmt.Sprint(i)))
					}
					g.set(o, k, kw, a)
				}
			}
			if g.opt(path, k, "not", depth) {
				g.set(o, k, "not", subSchema("not"))
			}
			if g.opt(path, k, "patternProperties", depth) {
				g.set(o, k, "patternProperties", g.schemaMap(path, "patternProperties", depth))
			}
			if g.opt(path, k, "definitions", depth) {
				g.set(o, k, "definitions", g.schemaMap(path, "definitions", depth))
			}
			if g.opt(path, k, "dependencies", depth) {
				d := obj{}
				for i, nm := range g.names(g.count(2)) {
					asArray := g.R.Intn(2) == 0
					if g.Only != nil {
						asArray = (g.Variant+i)%2 == 0
					}
					if asArray {
						// a property dependency names one or more other properties
						switch (g.Variant + i + g.R.Intn(3)) % 3 {
						case 0:
							d[nm] = []interface{}{g.name() + "d"}
						case 1:
							d[nm] = []interface{}{g.name() + "d", "other"}
						default:
							d[nm] = []interface{}{g.name() + "d", "other", "third one"}
						}
					} else {
						d[nm] = subSchema("dependencies", nm)
					}
				}
				g.set(o, k, "dependencies", d)
			}
			if g.opt(path, k, "additionalItems", depth) {
				v := g.R.Intn(3)
				if g.Only != nil {
					v = g.Variant % 3
				}
				switch v {
				case 0:
					g.set(o, k, "additionalItems", true)
				case 1:
					g.set(o, k, "additionalItems", false)
				default:
					g.set(o, k, "additionalItems", subSchema("additionalItems"))
				}
			}
		}
		if g.opt(path, k, "unknown", depth) {
			n := g.count(2)
			for i := 0; i < n; i++ {
				nm := g.pick(unknownKeywords)
				if schemaReserved[strings.ToLower(nm)] || strings.HasPrefix(strings.ToLower(nm), "x-") {
					continue
				}
				o[nm] = g.payload(1, true)
			}
			g.cell(k, "unknown")
		}
	}
	g.ext(o, path, k, depth)
	if len(o) == 0 && len(path) > 0 {
		// an empty object at a keyword position would be an "empty optional object": keep nested schemas non-empty
		g.set(o, k, "title", g.text())
	}
	return o
}

// schemaMap generates a name -> schema map (properties, patternProperties, definitions).
func (g *DocGen) schemaMap(path []string, kw string, depth int) obj {
	m := obj{}
	n := g.count(3)
	if g.BigMaps && kw == "properties" && g.R.Intn(6) == 0 {
		// many small properties, x-order values with many ties
		big := 13 + g.R.Intn(60)
		for i := 0; i < big; i++ {
			nm := fmt.Sprintf("prop%03d", g.R.Intn(1000))
			leaf := obj{"type": "string"}
			g.mark(sub(path, kw, nm), "schema")
			if g.XOrder && g.R.Intn(3) != 0 {
				leaf["x-order"] = float64(g.R.Intn(4))
			}
			m[nm] = leaf
		}
		g.cell("schema", "big-properties-map")
		return m
	}
	var names []string
	if kw == "patternProperties" {
		pool := []string{"^a\\d+$", "^x-", "[0-9]+", "^\"q\"", ".*", "^é"}
		g.R.Shuffle(len(pool), func(i, j int) { pool[i], pool[j] = pool[j], pool[i] })
		if n > len(pool) {
			n = len(pool)
		}
		names = pool[:n]
	} else {
		names = g.names(n)
	}
	for i, nm := range names {
		s := g.Schema(sub(path, kw, nm), depth+1)
		if g.XOrder && kw == "properties" && g.R.Intn(3) != 0 {
			// x-order of every shape: integers, ties, strings, floats, negative, non-numeric
			choices := []interface{}{float64(i), float64(1), float64(1), "2", "10", 1.5, float64(-3), "abc", true, float64(1 << 40), "1"}
			s["x-order"] = choices[g.R.Intn(len(choices))]
		}
		if g.XOrder && kw == "properties" && g.R.Intn(4) == 0 {
			// an extension that differs from x-order by letter case only, next to it or alone, with a value of its own
			s[[]string{"X-Order", "X-ORDER", "x-Order"}[g.R.Intn(3)]] = float64(g.R.Intn(12))
			g.cell("schema", "x-order-case-variant")
		}
		m[nm] = s
	}
	return m
}

// Swagger generates a whole document.
func (g *DocGen) Swagger(path []string) obj {
	const k = "swagger"
	g.mark(path, k)
	o := obj{}
	depth := 0
	// decide the referable sections first so that $ref holders can point at them
	var defNames, parNames, respNames []string
	if g.opt(path, k, "definitions", depth) {
		defNames = g.names(g.count(3))
	}
	if g.opt(path, k, "parameters", depth) {
		parNames = g.names(g.count(2))
	}
	if g.opt(path, k, "responses", depth) {
		respNames = g.names(g.count(2))
	}
	if g.Refs {
		g.RefTargets = map[string][]string{}
		for _, n := range defNames {
			g.RefTargets["schema"] = append(g.RefTargets["schema"], canonLocalRef("definitions", n))
		}
		for _, n := range parNames {
			g.RefTargets["parameter"] = append(g.RefTargets["parameter"], canonLocalRef("parameters", n))
		}
		for _, n := range respNames {
			g.RefTargets["response"] = append(g.RefTargets["response"], canonLocalRef("responses", n))
		}
	}
	g.set(o, k, "swagger", "2.0")
	g.set(o, k, "info", g.Info(sub(path, "info"), 1))
	if g.opt(path, k, "host", depth) {
		g.set(o, k, "host", "api.example.com:8080")
	}
	if g.opt(path, k, "basePath", depth) {
		g.set(o, k, "basePath", "/v1/é")
	}
	if g.opt(path, k, "schemes", depth) {
		g.set(o, k, "schemes", g.schemes())
	}
	if g.opt(path, k, "consumes", depth) {
		g.set(o, k, "consumes", g.mimes())
	}
	if g.opt(path, k, "produces", depth) {
		g.set(o, k, "produces", g.mimes())
	}
	g.set(o, k, "paths", g.Paths(sub(path, "paths"), 1))
	if defNames != nil {
		m := obj{}
		for _, n := range defNames {
			m[n] = g.Schema(sub(path, "definitions", n), 1)
		}
		g.set(o, k, "definitions", m)
	}
	if parNames != nil {
		m := obj{}
		for _, n := range parNames {
			m[n] = g.Parameter(sub(path, "parameters", n), 1, false)
		}
		g.set(o, k, "parameters", m)
	}
	if respNames != nil {
		m := obj{}
		for _, n := range respNames {
			m[n] = g.Response(sub(path, "responses", n), 1, false)
		}
		g.set(o, k, "responses", m)
	}
	var secNames []string
	if g.opt(path, k, "securityDefinitions", depth) {
		m := obj{}
		for _, n := range g.names(g.count(2)) {
			m[n] = g.SecurityScheme(sub(path, "securityDefinitions", n), 1)
			secNames = append(secNames, n)
		}
		g.set(o, k, "securityDefinitions", m)
	}
	if g.opt(path, k, "security", depth) {
		if g.Fragile && g.R.Intn(3) == 0 {
			if g.R.Intn(2) == 0 {
				g.set(o, k, "security", []interface{}{})
			} else {
				g.set(o, k, "security", []interface{}{obj{}})
			}
		} else {
			g.set(o, k, "security", g.securityReqs(secNames))
		}
	}
	if g.opt(path, k, "tags", depth) {
		n := g.count(2)
		var a []interface{}
		seen := map[string]bool{}
		for i := 0; i < n; i++ {
			t := g.Tag(sub(path, "tags", fmt.Sprint(len(a))), 1)
			key := fmt.Sprint(t["name"]) // tag names are unique (two tags differing only in members the codec is known to drop would collide)
			if seen[key] {
				g.dropKinds(sub(path, "tags", fmt.Sprint(len(a))))
				continue
			}
			seen[key] = true
			a = append(a, t)
		}
		g.set(o, k, "tags", a)
	}
	if g.opt(path, k, "externalDocs", depth) {
		g.set(o, k, "externalDocs", g.ExternalDocs(sub(path, "externalDocs"), 1))
	}
	g.ext(o, path, k, depth)
	return o
}

// canonLocalRef builds the canonical text of a fragment-only reference to section/name
// (RFC 6901 escaping, then the escaping net/url applies to fragments).
// CanonLocalRef is exported for the harness.
func CanonLocalRef(section, name string) string { return canonLocalRef(section, name) }

func canonLocalRef(section, name string) string {
	return "#" + FragmentEscape("/"+section+"/"+oracle.EscapeToken(name))
}
