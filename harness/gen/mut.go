package gen

import (
	"bytes"
	"encoding/json"
	"fmt"
	"math/rand"
	"strings"
)

// Mutation result.
type Mutant struct {
	Text     []byte
	Ops      []string // what was done, for witnesses
	CaseFold bool     // a member name was turned into a case variant of a keyword: totality only
	Noise    bool     // byte-level damage (usually not JSON any more)
}

type nodeRef struct {
	parent interface{} // map[string]interface{} or []interface{}
	key    string
	index  int
}

func collect(v interface{}, out *[]nodeRef) {
	switch x := v.(type) {
	case map[string]interface{}:
		for k, w := range x {
			*out = append(*out, nodeRef{parent: x, key: k})
			collect(w, out)
		}
	case []interface{}:
		for i, w := range x {
			*out = append(*out, nodeRef{parent: x, index: i})
			collect(w, out)
		}
	}
}

func (n nodeRef) get() interface{} {
	if m, ok := n.parent.(map[string]interface{}); ok {
		return m[n.key]
	}
	return n.parent.([]interface{})[n.index]
}

func (n nodeRef) set(v interface{}) {
	if m, ok := n.parent.(map[string]interface{}); ok {
		m[n.key] = v
		return
	}
	n.parent.([]interface{})[n.index] = v
}

var extremeNumbers = []string{"1e400", "-1e400", "-0", "9223372036854775808", "-9223372036854775809", "1234567890123456789012345678901234567890",
	"1E-400", "0.1e1", "1.7976931348623157e308", "4.9e-324", "0.30000000000000004", "1e21", "18446744073709551616", "2147483648", "-1", "0.5"}

var oddRefs = []string{"%zz", "http://[::1", ":", "\u007f", "a b", "#", "", "##", "#/%", "http://a/b#/c#d", "//", "file://", "\\\\host\\share", "http://h:port/x",
	"#/" + strings.Repeat("a/", 300), "\u0000", "?", "http://EXAMPLE.com:80//a//b/../c#/~2"}

func deepNest(kind int, depth int) json.RawMessage {
	var open, close, leaf string
	switch kind {
	case 0:
		open, close, leaf = "[", "]", ""
	case 1:
		open, close, leaf = `{"not":`, "}", "{}"
	case 2:
		open, close, leaf = `{"items":`, "}", "{}"
	case 3:
		open, close, leaf = `{"allOf":[`, "]}", "{}"
	case 4:
		open, close, leaf = `{"properties":{"p":`, "}}", "{}"
	case 5:
		open, close, leaf = `{"additionalProperties":`, "}", "true"
	default:
		open, close, leaf = `{"x-a":`, "}", "1"
	}
	var sb strings.Builder
	for i := 0; i < depth; i++ {
		sb.WriteString(open)
	}
	sb.WriteString(leaf)
	for i := 0; i < depth; i++ {
		sb.WriteString(close)
	}
	return json.RawMessage(sb.String())
}

func otherTyped(r *rand.Rand, cur interface{}) interface{} {
	choices := []interface{}{nil, true, false, float64(0), float64(-1), 3.5, "", "str", []interface{}{}, []interface{}{"a", float64(1), nil},
		map[string]interface{}{}, map[string]interface{}{"k": "v"}, []interface{}{map[string]interface{}{}}, []interface{}{[]interface{}{}},
		map[string]interface{}{"$ref": "#/definitions/x"}, map[string]interface{}{"type": float64(1)}, "2", []interface{}{"string", "null"}}
	return choices[r.Intn(len(choices))]
}

var caseFoldVictims = []string{"type", "properties", "items", "description", "required", "enum", "default", "in", "name", "schema", "responses", "paths", "info", "title",
	"allOf", "additionalProperties", "maximum", "format", "parameters", "headers", "definitions", "security", "tags", "x-order", "$ref", "flow", "scopes"}

func foldCase(r *rand.Rand, k string) string {
	switch r.Intn(3) {
	case 0:
		return strings.ToUpper(k)
	case 1:
		return strings.ToUpper(k[:1]) + k[1:]
	}
	b := []byte(k)
	i := r.Intn(len(b))
	if b[i] >= 'a' && b[i] <= 'z' {
		b[i] -= 32
	} else if b[i] >= 'A' && b[i] <= 'Z' {
		b[i] += 32
	}
	return string(b)
}

// Mutate applies n structure-aware mutations to a deep copy of doc and serialises it.
func Mutate(r *rand.Rand, doc interface{}, n int, deepDepth int) Mutant {
	var m Mutant
	b0, _ := json.Marshal(doc)
	var cp interface{}
	_ = json.Unmarshal(b0, &cp)
	root := []interface{}{cp} // so that the root itself is a mutable node
	for i := 0; i < n; i++ {
		var nodes []nodeRef
		collect(root, &nodes)
		if len(nodes) == 0 {
			break
		}
		nd := nodes[r.Intn(len(nodes))]
		switch op := r.Intn(13); op {
		case 12:
			// an extension spelled with an upper-case prefix, next to an undefined member whose own content looks like an extension
			if mp, ok := nd.get().(map[string]interface{}); ok {
				delete(mp, "x-order")
				for k := range mp {
					if strings.HasPrefix(k, "x-") {
						delete(mp, k)
					}
				}
				mp["X-Only"] = map[string]interface{}{"url": "u"}
				mp["zz-undefined"] = map[string]interface{}{"x-inner": float64(1)}
				m.Ops = append(m.Ops, "upper-case X- extension next to an undefined member")
			}
		case 0, 1, 2:
			v := otherTyped(r, nd.get())
			nd.set(v)
			m.Ops = append(m.Ops, fmt.Sprintf("replace %q with %v", nd.key, v))
		case 3:
			nd.set(nil)
			m.Ops = append(m.Ops, fmt.Sprintf("null at %q", nd.key))
		case 4:
			x := extremeNumbers[r.Intn(len(extremeNumbers))]
			nd.set(json.RawMessage(x))
			m.Ops = append(m.Ops, fmt.Sprintf("number %s at %q", x, nd.key))
		case 5:
			// duplicate member (text level)
			if mp, ok := nd.get().(map[string]interface{}); ok && len(mp) > 0 {
				var sb bytes.Buffer
				sb.WriteByte('{')
				first := true
				var dupK string
				for k, v := range mp {
					if !first {
						sb.WriteByte(',')
					}
					first = false
					kb, _ := json.Marshal(k)
					vb, _ := json.Marshal(v)
					sb.Write(kb)
					sb.WriteByte(':')
					sb.Write(vb)
					dupK = k
				}
				kb, _ := json.Marshal(dupK)
				vb, _ := json.Marshal(otherTyped(r, nil))
				sb.WriteByte(',')
				sb.Write(kb)
				sb.WriteByte(':')
				sb.Write(vb)
				sb.WriteByte('}')
				nd.set(json.RawMessage(sb.Bytes()))
				m.Ops = append(m.Ops, fmt.Sprintf("duplicate member %q", dupK))
			}
		case 6:
			s := oddRefs[r.Intn(len(oddRefs))]
			if mp, ok := nd.get().(map[string]interface{}); ok {
				key := []string{"$ref", "$schema", "id"}[r.Intn(3)]
				mp[key] = s
				m.Ops = append(m.Ops, fmt.Sprintf("%s=%q", key, s))
			} else {
				nd.set(map[string]interface{}{"$ref": s})
				m.Ops = append(m.Ops, fmt.Sprintf("$ref holder %q", s))
			}
		case 7:
			if mp, ok := nd.parent.(map[string]interface{}); ok {
				// rename a member: case-fold onto a keyword (flagged) or onto another keyword
				if r.Intn(2) == 0 {
					nk := foldCase(r, caseFoldVictims[r.Intn(len(caseFoldVictims))])
					mp[nk] = mp[nd.key]
					m.CaseFold = true
					m.Ops = append(m.Ops, fmt.Sprintf("case-folded member %q", nk))
				} else {
					nk := caseFoldVictims[r.Intn(len(caseFoldVictims))]
					mp[nk] = mp[nd.key]
					m.Ops = append(m.Ops, fmt.Sprintf("copied %q to member %q", nd.key, nk))
				}
			}
		case 8:
			if deepDepth > 0 && r.Intn(40) == 0 {
				k := r.Intn(7)
				nd.set(deepNest(k, deepDepth))
				m.Ops = append(m.Ops, fmt.Sprintf("deep nesting kind %d depth %d at %q", k, deepDepth, nd.key))
			} else {
				nd.set(deepNest(r.Intn(7), 1+r.Intn(40)))
				m.Ops = append(m.Ops, "shallow nesting")
			}
		case 9:
			// empty containers of the other kind
			switch nd.get().(type) {
			case map[string]interface{}:
				nd.set([]interface{}{})
			case []interface{}:
				nd.set(map[string]interface{}{})
			default:
				nd.set([]interface{}{})
			}
			m.Ops = append(m.Ops, fmt.Sprintf("empty container of the other kind at %q", nd.key))
		case 10:
			// wrap / unwrap in an array
			if a, ok := nd.get().([]interface{}); ok && len(a) > 0 {
				nd.set(a[0])
			} else {
				nd.set([]interface{}{nd.get()})
			}
			m.Ops = append(m.Ops, fmt.Sprintf("array wrap/unwrap at %q", nd.key))
		default:
			// x-order and other extension oddities
			if mp, ok := nd.get().(map[string]interface{}); ok {
				mp["x-order"] = otherTyped(r, nil)
				mp["X-Mixed"] = float64(1)
				m.Ops = append(m.Ops, "x- members added")
			}
		}
	}
	out, err := json.Marshal(root[0])
	if err != nil {
		out = b0
		m.Ops = append(m.Ops, "unencodable mutation dropped: "+err.Error())
	}
	m.Text = out
	return m
}

// Damage applies byte-level damage: truncation, flipped or inserted bytes.
func Damage(r *rand.Rand, text []byte) Mutant {
	m := Mutant{Noise: true}
	b := append([]byte{}, text...)
	switch r.Intn(5) {
	case 0:
		if len(b) > 0 {
			b = b[:r.Intn(len(b))]
		}
		m.Ops = append(m.Ops, "truncated")
	case 1:
		for i, n := 0, 1+r.Intn(3); i < n && len(b) > 0; i++ {
			b[r.Intn(len(b))] = byte(r.Intn(256))
		}
		m.Ops = append(m.Ops, "bytes overwritten")
	case 2:
		if len(b) > 0 {
			p := r.Intn(len(b))
			ins := []string{"\x00", "\xff\xfe", "\\u12", "\"", "{", "]", ",", "\\", " \n\t", "null", "1e999", "\xed\xa0\x80"}[r.Intn(12)]
			b = append(b[:p], append([]byte(ins), b[p:]...)...)
		}
		m.Ops = append(m.Ops, "bytes inserted")
	case 3:
		n := r.Intn(24)
		b = make([]byte, n)
		for i := range b {
			b[i] = byte(r.Intn(256))
		}
		m.Ops = append(m.Ops, "random bytes")
	default:
		lits := []string{"", " ", "null", "true", "0", "\"s\"", "[]", "{}", "[", "{", "{\"a\"", "[1,]", "nul", "\"\\u", "-", "1.", "{\"$ref\":1}", "[[]]", "\"\xff\"", "\ufeff{}", "{} {}", "{}x"}
		b = []byte(lits[r.Intn(len(lits))])
		m.Ops = append(m.Ops, "literal "+string(b))
	}
	m.Text = b
	return m
}
