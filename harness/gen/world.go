package gen

import (
	"fmt"
	"math/rand"
	"net/url"
	"path"
	"sort"
	"strings"

	"verifharness/oracle"
)

// World is a set of documents at canonical URLs plus the root URL.
type World struct {
	Docs     map[string]interface{}
	Root     string
	Features map[string]int // what the generator put in (holder kind x ref form x directory relation, topologies, ...)
	Slots    int            // number of $ref holders
}

// WorldOpts steers G-WORLD.
type WorldOpts struct {
	NDocs        int
	Cyclic       bool    // allow references to any target (otherwise only "forward": acyclic by construction)
	Chains       bool    // parameter/response/path-item $refs may target a $ref holder in another document (trigger T-chain)
	HostileNames bool    // names needing ~0/~1/percent escapes
	Siblings     bool    // members next to a schema $ref
	Nested       bool    // $refs to nested pointer targets
	WholeDoc     bool    // schema $refs to whole documents (schema-only documents)
	PrefixDocs   bool    // a document whose URL is a textual prefix of a sibling's
	HTTP         bool    // allow documents on an http host
	MaxDepth     int     // nesting depth of inline schemas
	Elements     int     // top-level elements per section (upper bound)
	RefDensity   float64 // probability that a child position is a $ref holder
	FragmentOnly bool    // references within a document are always spelled fragment-only
	AbsOnly      bool    // references to other documents are always absolute URLs (the root's location need not be known)
	IDs          int     // 0 none; otherwise id variant (C04/C18 worlds only)
	// faults (C08)
	Dangling   float64 // probability that a $ref slot points to a pointer that does not exist
	IllTyped   float64 // probability that a schema $ref slot points at a non-object
	MissingDoc float64
	HollowDoc  float64 // probability that a cross-document $ref goes to a document whose content is null
	// Force, when set, pins the first slot: holder kind, ref form, directory relation (structured part)
	Force *ForceSlot
}

type ForceSlot struct {
	Holder string // schema:<position> | parameter | response | pathItem | opParameter | opResponse
	Form   string // fragment | rel | dotrel | rootrel | abs | samefile
	Dir    string // root | same | sub | parent | cousin | http
}

// the same two base names are used in every directory, so that the same relative text ("x.json#/...") designates
// different documents depending on the document that contains it
var docPool = map[string][]string{
	"same":   {"file:///w/a/x.json", "file:///w/a/other.json"},
	"sub":    {"file:///w/a/s/x.json", "file:///w/a/s/other.json", "file:///w/a/s%20p/x.json"}, // one directory whose name needs escaping
	"parent": {"file:///w/x.json", "file:///w/other.json"},
	"cousin": {"file:///w/b/x.json", "file:///w/b/other.json", "file:///w/a-common/x.json", "file:///w/a.json", "file:///w/b/w/a/x.json"}, // the last one has the root's directory in the middle of its path
	"http":   {"http://h.example/d/x.json", "http://h.example/d/other.json"},
}

const RootURL = "file:///w/a/root.json"

var hostileDefNames = []string{"a/b", "c~d", "e f", "g%h", "é", "x{y}", "~", "/", "a~1b", "q?r", "h#i", "%41", "D0", "D1"}

type slot struct {
	doc    string
	holder map[string]interface{} // the object that receives "$ref"
	kind   string                 // schema | parameter | response | pathItem
	rank   int                    // rank of the enclosing top-level element
	label  string                 // holder description for coverage
}

type target struct {
	doc       string
	toks      []string
	kind      string
	rank      int
	top       bool // top-level element (definitions/x, parameters/x, ...)
	refHolder bool
}

type worldGen struct {
	r       *rand.Rand
	o       WorldOpts
	w       *World
	slots   []*slot
	targets []*target
	rank    int
	short   map[string]string
}

func (g *worldGen) marker(doc string, toks []string) string {
	return g.short[doc] + ":" + oracle.TokensToPointer(toks)
}

func dirRelation(from, to string) string {
	if from == to {
		return "root"
	}
	fu, _ := url.Parse(from)
	tu, _ := url.Parse(to)
	if fu.Scheme != tu.Scheme || fu.Host != tu.Host {
		return "http"
	}
	fd, td := path.Dir(fu.Path), path.Dir(tu.Path)
	switch {
	case fd == td:
		return "same"
	case strings.HasPrefix(td, fd+"/"):
		return "sub"
	case strings.HasPrefix(fd, td+"/") || td == "/":
		return "parent"
	}
	return "cousin"
}

// relPath computes a relative path from the directory of from to to (same scheme and host).
func relPath(from, to string) string {
	fu, _ := url.Parse(from)
	tu, _ := url.Parse(to)
	fd := strings.Split(strings.Trim(path.Dir(fu.EscapedPath()), "/"), "/")
	tp := strings.Split(strings.Trim(tu.EscapedPath(), "/"), "/")
	if len(fd) == 1 && fd[0] == "" {
		fd = nil
	}
	i := 0
	for i < len(fd) && i < len(tp)-1 && fd[i] == tp[i] {
		i++
	}
	var parts []string
	for j := i; j < len(fd); j++ {
		parts = append(parts, "..")
	}
	parts = append(parts, tp[i:]...)
	return strings.Join(parts, "/")
}

// RefText spells a reference from document `from` to (to, toks) in the given form.
func RefText(from, to string, toks []string, form string) string {
	frag := ""
	if toks != nil {
		frag = "#" + FragmentEscape(oracle.TokensToPointer(toks))
	}
	fu, _ := url.Parse(from)
	tu, _ := url.Parse(to)
	sameAuthority := fu.Scheme == tu.Scheme && fu.Host == tu.Host
	switch form {
	case "fragment":
		if from == to && frag != "" {
			return frag
		}
	case "samefile":
		if from == to {
			return path.Base(tu.Path) + frag
		}
	case "rel":
		if sameAuthority {
			return relPath(from, to) + frag
		}
	case "dotrel":
		if sameAuthority {
			rp := relPath(from, to)
			if !strings.HasPrefix(rp, "..") {
				rp = "./" + rp
			}
			return rp + frag
		}
	case "rootrel":
		if sameAuthority {
			return tu.EscapedPath() + frag
		}
	}
	return to + frag
}

func (g *worldGen) feature(k string) { g.w.Features[k]++ }

// schema builds an inline schema at (doc, toks); child positions become inline schemas or $ref slots.
func (g *worldGen) schema(doc string, toks []string, depth int, rank int) map[string]interface{} {
	s := map[string]interface{}{"title": g.marker(doc, toks)}
	switch g.r.Intn(6) {
	case 0, 1:
		s["type"] = "object"
	case 2:
		// allOf/anyOf/oneOf/not/definitions apply to every type: a scalar type says nothing about sub-schemas
		s["type"] = []string{"string", "integer"}[len(toks)%2]
	}
	if g.o.IDs != 0 && g.r.Intn(3) == 0 {
		s["id"] = g.idValue()
	}
	if depth > 0 && g.r.Intn(4) == 0 {
		g.targets = append(g.targets, &target{doc: doc, toks: toks, kind: "schema", rank: rank})
	}
	if depth >= g.o.MaxDepth {
		return s
	}
	child := func(t ...string) interface{} {
		return g.schemaOrSlot(doc, append(append([]string{}, toks...), t...), depth+1, rank, "schema:"+t[0])
	}
	names := func() []string {
		n := 1 + g.r.Intn(2)
		pool := []string{"p", "q", "r"}
		if g.o.HostileNames {
			pool = append(pool, hostileDefNames...)
		}
		g.r.Shuffle(len(pool), func(i, j int) { pool[i], pool[j] = pool[j], pool[i] })
		return pool[:n]
	}
	npos := 1 + g.r.Intn(2)
	used := map[string]bool{}
	for i := 0; i < npos; i++ {
		c := g.r.Intn(12)
		key := []string{"properties", "properties", "items", "items", "allOf", "anyOf", "oneOf", "not", "additionalProperties", "patternProperties", "dependencies", "addl"}[c]
		if used[key] {
			continue // never overwrite a position: nested targets were registered under it
		}
		used[key] = true
		switch c {
		case 0, 1:
			m := map[string]interface{}{}
			for _, n := range names() {
				m[n] = child("properties", n)
			}
			s["properties"] = m
		case 2:
			s["items"] = child("items")
			s["type"] = "array"
		case 3:
			s["items"] = []interface{}{child("items", "0"), child("items", "1")}
		case 4:
			s["allOf"] = []interface{}{child("allOf", "0"), child("allOf", "1")}
		case 5:
			s["anyOf"] = []interface{}{child("anyOf", "0")}
		case 6:
			s["oneOf"] = []interface{}{child("oneOf", "0"), child("oneOf", "1")}
		case 7:
			s["not"] = child("not")
		case 8:
			s["additionalProperties"] = child("additionalProperties")
		case 9:
			m := map[string]interface{}{}
			// patterns; some spell the name of a property of the same schema (the two maps are independent name spaces)
			pats := []string{"^a", "b$", "p", "q"}
			g.r.Shuffle(len(pats), func(i, j int) { pats[i], pats[j] = pats[j], pats[i] })
			for _, n := range pats[:1+g.r.Intn(2)] {
				m[n] = child("patternProperties", n)
			}
			s["patternProperties"] = m
		case 10:
			dk := []string{"k", "p"}[g.r.Intn(2)] // a dependency is often named after a property
			s["dependencies"] = map[string]interface{}{dk: child("dependencies", dk), "l": []interface{}{"m"}}
		default:
			if g.r.Intn(2) == 0 {
				s["additionalItems"] = child("additionalItems")
				if !used["items"] && g.r.Intn(2) == 0 {
					// additionalItems next to a single-schema items (moot for validation, still a schema position)
					used["items"] = true
					s["items"] = map[string]interface{}{"title": g.marker(doc, append(append([]string{}, toks...), "items"))}
					g.feature("additionalItems-next-to-single-items")
				}
			} else {
				m := map[string]interface{}{}
				for _, n := range names() {
					m[n] = child("definitions", n)
				}
				s["definitions"] = m
			}
		}
	}
	return s
}

func (g *worldGen) idValue() string {
	switch g.o.IDs {
	case 1:
		return "http://ids.example/base/" + fmt.Sprintf("s%d.json", g.r.Intn(3))
	case 2:
		return fmt.Sprintf("idfile%d.json", g.r.Intn(3))
	case 3:
		return "#frag"
	case 4:
		return "/abs/dir/"
	case 6:
		return fmt.Sprintf("%%zz-%d", g.r.Intn(1000000000)) // not a URI at all; never the same twice
	default:
		return "../up/"
	}
}

func (g *worldGen) schemaOrSlot(doc string, toks []string, depth int, rank int, label string) interface{} {
	if g.r.Float64() < g.o.RefDensity || depth > g.o.MaxDepth {
		h := map[string]interface{}{}
		if g.o.Siblings && g.r.Intn(3) == 0 {
			h["description"] = "sibling of a $ref (ignored)"
			g.feature("schema-ref-with-siblings")
		}
		g.slots = append(g.slots, &slot{doc: doc, holder: h, kind: "schema", rank: rank, label: label})
		return h
	}
	return g.schema(doc, toks, depth, rank)
}

func (g *worldGen) refOr(doc string, kind string, rank int, label string, inline func() map[string]interface{}) interface{} {
	if g.r.Float64() < g.o.RefDensity {
		h := map[string]interface{}{}
		g.slots = append(g.slots, &slot{doc: doc, holder: h, kind: kind, rank: rank, label: label})
		return h
	}
	return inline()
}

func (g *worldGen) parameter(doc string, toks []string, rank int) map[string]interface{} {
	p := map[string]interface{}{"name": fmt.Sprintf("n%d", g.r.Intn(1000)), "description": g.marker(doc, toks)}
	if g.r.Intn(3) != 0 {
		p["in"] = "body"
		p["schema"] = g.schemaOrSlot(doc, append(append([]string{}, toks...), "schema"), 1, rank, "schema:parameter.schema")
	} else if g.r.Intn(2) == 0 {
		p["in"] = "query"
		p["type"] = "array"
		p["items"] = map[string]interface{}{"type": "string", "format": g.marker(doc, append(append([]string{}, toks...), "items"))}
	} else {
		p["in"] = "query"
		p["type"] = "string"
	}
	return p
}

func (g *worldGen) response(doc string, toks []string, rank int) map[string]interface{} {
	r := map[string]interface{}{"description": g.marker(doc, toks)}
	if g.r.Intn(3) != 0 {
		r["schema"] = g.schemaOrSlot(doc, append(append([]string{}, toks...), "schema"), 1, rank, "schema:response.schema")
	}
	if g.r.Intn(4) == 0 {
		r["headers"] = map[string]interface{}{"X-H": map[string]interface{}{"type": "string", "description": "hdr"}}
	}
	return r
}

func (g *worldGen) pathItem(doc string, toks []string, rank int) map[string]interface{} {
	pi := map[string]interface{}{"x-mark": g.marker(doc, toks)}
	if g.r.Intn(2) == 0 {
		var ps []interface{}
		for i, n := 0, 1+g.r.Intn(2); i < n; i++ {
			t := append(append([]string{}, toks...), "parameters", fmt.Sprint(i))
			ps = append(ps, g.refOr(doc, "parameter", rank, "pathItem.parameters", func() map[string]interface{} { return g.parameter(doc, t, rank) }))
		}
		pi["parameters"] = ps
	}
	ops := []string{"get", "post", "put", "delete", "options", "head", "patch"}
	g.r.Shuffle(len(ops), func(i, j int) { ops[i], ops[j] = ops[j], ops[i] })
	for _, opn := range ops[:1+g.r.Intn(2)] {
		ot := append(append([]string{}, toks...), opn)
		op := map[string]interface{}{"operationId": g.marker(doc, ot)}
		if g.r.Intn(2) == 0 {
			var ps []interface{}
			for i, n := 0, 1+g.r.Intn(2); i < n; i++ {
				t := append(append([]string{}, ot...), "parameters", fmt.Sprint(i))
				ps = append(ps, g.refOr(doc, "parameter", rank, "operation.parameters", func() map[string]interface{} { return g.parameter(doc, t, rank) }))
			}
			op["parameters"] = ps
		}
		resps := map[string]interface{}{}
		codes := []string{"200", "404", "default"}
		g.r.Shuffle(len(codes), func(i, j int) { codes[i], codes[j] = codes[j], codes[i] })
		for _, c := range codes[:1+g.r.Intn(2)] {
			t := append(append([]string{}, ot...), "responses", c)
			resps[c] = g.refOr(doc, "response", rank, "operation.responses", func() map[string]interface{} { return g.response(doc, t, rank) })
		}
		op["responses"] = resps
		pi[opn] = op
	}
	return pi
}

// GenWorld builds a world.
func GenWorld(r *rand.Rand, o WorldOpts) *World {
	if o.MaxDepth == 0 {
		o.MaxDepth = 2
	}
	if o.Elements == 0 {
		o.Elements = 3
	}
	if o.RefDensity == 0 {
		o.RefDensity = 0.45
	}
	g := &worldGen{r: r, o: o, w: &World{Docs: map[string]interface{}{}, Root: RootURL, Features: map[string]int{}}, short: map[string]string{}}
	urls := []string{RootURL}
	rels := []string{"same", "sub", "parent", "cousin"}
	if o.HTTP {
		rels = append(rels, "http")
	}
	if o.Force != nil && o.Force.Dir != "root" {
		urls = append(urls, docPool[o.Force.Dir][r.Intn(len(docPool[o.Force.Dir]))])
	}
	for len(urls) < o.NDocs {
		rel := rels[r.Intn(len(rels))]
		u := docPool[rel][r.Intn(len(docPool[rel]))]
		if o.PrefixDocs && r.Intn(2) == 0 {
			u = RootURL + "2" // file:///w/a/root.json2: the root's URL is a textual prefix
		}
		dup := false
		for _, x := range urls {
			if x == u {
				dup = true
			}
		}
		if !dup {
			urls = append(urls, u)
		} else if len(urls) >= 9 {
			break
		}
	}
	for i, u := range urls {
		g.short[u] = fmt.Sprintf("D%d", i)
	}
	defNames := []string{"d0", "d1", "d2", "d3"}
	for di, u := range urls {
		doc := map[string]interface{}{}
		if di == 0 {
			doc["swagger"] = "2.0"
			doc["info"] = map[string]interface{}{"title": "root", "version": "1"}
		}
		// definitions
		defs := map[string]interface{}{}
		nd := 1 + r.Intn(o.Elements)
		names := append([]string{}, defNames[:min(nd, len(defNames))]...)
		if o.HostileNames {
			names = append(names, hostileDefNames[r.Intn(len(hostileDefNames))])
			// a name and the text of its own escaped form side by side: a lookup that forgets to decode (or decodes twice)
			// lands on the twin
			twins := [][2]string{{"a/b", "a~1b"}, {"c~d", "c~0d"}, {"g%h", "g%25h"}, {"e f", "e%20f"}, {"~", "~0"}, {"/", "~1"}, {"D0", "D1"}, {"Pet", "pet"}}
			tw := twins[r.Intn(len(twins))]
			names = append(names, tw[0], tw[1])
			seen := map[string]bool{}
			uniq := names[:0]
			for _, n := range names {
				if !seen[n] {
					seen[n] = true
					uniq = append(uniq, n)
				}
			}
			names = uniq
		}
		for _, n := range names {
			g.rank++
			toks := []string{"definitions", n}
			g.targets = append(g.targets, &target{doc: u, toks: toks, kind: "schema", rank: g.rank, top: true})
			defs[n] = g.schemaOrSlotTop(u, toks, g.rank)
		}
		doc["definitions"] = defs
		if r.Intn(3) != 0 || o.Force != nil {
			ps := map[string]interface{}{}
			caseTwinRank := 0
			if o.Chains && r.Intn(2) == 0 {
				g.rank++
				caseTwinRank = g.rank // a hop named like p0 up to letter case, ranked before it (references stay forward)
			}
			addCaseTwin := func(doc string) {
				if p0, ok := ps["p0"].(map[string]interface{}); ok && caseTwinRank > 0 {
					if _, isRef := p0["$ref"]; !isRef && len(p0) > 0 && p0["name"] != nil {
						ps["P0"] = map[string]interface{}{"$ref": "#/parameters/p0"}
						g.targets = append(g.targets, &target{doc: doc, toks: []string{"parameters", "P0"}, kind: "parameter", rank: caseTwinRank, top: true, refHolder: true})
						g.feature("case-variant-chain-hop")
					}
				}
			}
			for i, n := 0, 1+r.Intn(2); i < n; i++ {
				g.rank++
				name := fmt.Sprintf("p%d", i)
				if o.HostileNames && r.Intn(3) == 0 {
					name = hostileDefNames[r.Intn(len(hostileDefNames))]
				}
				if _, dup := ps[name]; dup {
					continue // never overwrite an element: nested targets were registered under it
				}
				toks := []string{"parameters", name}
				if o.Chains && r.Intn(5) < 2 {
					// a shared parameter that is itself a $ref holder: hop of a chain
					h := map[string]interface{}{}
					g.slots = append(g.slots, &slot{doc: u, holder: h, kind: "parameter", rank: g.rank, label: "parameter(chain-hop)"})
					g.targets = append(g.targets, &target{doc: u, toks: toks, kind: "parameter", rank: g.rank, top: true, refHolder: true})
					ps[name] = h
					continue
				}
				g.targets = append(g.targets, &target{doc: u, toks: toks, kind: "parameter", rank: g.rank, top: true})
				ps[name] = g.parameter(u, toks, g.rank)
			}
			addCaseTwin(u)
			doc["parameters"] = ps
		}
		if r.Intn(3) != 0 || o.Force != nil {
			rs := map[string]interface{}{}
			for i, n := 0, 1+r.Intn(2); i < n; i++ {
				g.rank++
				name := fmt.Sprintf("r%d", i)
				toks := []string{"responses", name}
				if o.Chains && r.Intn(5) < 2 {
					h := map[string]interface{}{}
					g.slots = append(g.slots, &slot{doc: u, holder: h, kind: "response", rank: g.rank, label: "response(chain-hop)"})
					g.targets = append(g.targets, &target{doc: u, toks: toks, kind: "response", rank: g.rank, top: true, refHolder: true})
					rs[name] = h
					continue
				}
				g.targets = append(g.targets, &target{doc: u, toks: toks, kind: "response", rank: g.rank, top: true})
				rs[name] = g.response(u, toks, g.rank)
			}
			doc["responses"] = rs
		}
		paths := map[string]interface{}{}
		if r.Intn(3) != 0 || di == 0 || o.Force != nil {
			for i, n := 0, 1+r.Intn(2); i < n; i++ {
				g.rank++
				name := []string{"/a", "/b/{id}", "/c d"}[i]
				toks := []string{"paths", name}
				if di > 0 && o.Chains && r.Intn(5) < 2 {
					h := map[string]interface{}{}
					g.slots = append(g.slots, &slot{doc: u, holder: h, kind: "pathItem", rank: g.rank, label: "pathItem(chain-hop)"})
					g.targets = append(g.targets, &target{doc: u, toks: toks, kind: "pathItem", rank: g.rank, top: true, refHolder: true})
					paths[name] = h
				} else if di > 0 || r.Intn(3) != 0 {
					g.targets = append(g.targets, &target{doc: u, toks: toks, kind: "pathItem", rank: g.rank, top: true})
					paths[name] = g.pathItem(u, toks, g.rank)
				} else {
					// a path item of the root that is itself a $ref holder
					h := map[string]interface{}{}
					g.slots = append(g.slots, &slot{doc: u, holder: h, kind: "pathItem", rank: g.rank, label: "pathItem"})
					paths[name] = h
				}
			}
		}
		doc["paths"] = paths
		g.w.Docs[u] = doc
	}
	if o.WholeDoc {
		// a document that is one schema, referable as a whole
		u := "file:///w/a/whole.json"
		g.short[u] = "DW"
		g.rank++
		ws := g.schema(u, nil, 1, g.rank)
		if r.Intn(2) == 0 {
			// a stand-alone recursive schema: "#" designates the document that contains it, wherever it is imported from
			for _, pos := range []string{"additionalProperties", "not", "additionalItems"} {
				if _, taken := ws[pos]; !taken { // never overwrite a position: nested targets may be registered under it
					ws[pos] = map[string]interface{}{"$ref": "#"}
					g.feature("whole-document-self-reference")
					break
				}
			}
		}
		g.w.Docs[u] = ws
		g.targets = append(g.targets, &target{doc: u, toks: nil, kind: "schema", rank: g.rank, top: true})
	}
	g.fillSlots()
	g.w.Slots = len(g.slots)
	return g.w
}

func (g *worldGen) schemaOrSlotTop(doc string, toks []string, rank int) interface{} {
	// a top-level definition is a pure $ref now and then
	if g.r.Float64() < g.o.RefDensity/3 {
		h := map[string]interface{}{}
		g.slots = append(g.slots, &slot{doc: doc, holder: h, kind: "schema", rank: rank, label: "schema:definition"})
		return h
	}
	return g.schema(doc, toks, 0, rank)
}

func min(a, b int) int {
	if a < b {
		return a
	}
	return b
}

// nearMiss returns a pointer into the target's document that almost designates an element of the wanted kind.
func (g *worldGen) nearMiss(kind string, t *target) []string {
	doc, _ := g.w.Docs[t.doc].(map[string]interface{})
	sortedKeys := func(m map[string]interface{}) []string {
		var ks []string
		for k := range m {
			ks = append(ks, k)
		}
		sort.Strings(ks)
		return ks
	}
	if kind == "schema" {
		node, ok := oracle.EvalPointer(g.w.Docs[t.doc], oracle.TokensToPointer(t.toks))
		nm, isObj := node.(map[string]interface{})
		if !ok || !isObj || nm["title"] == nil {
			return nil // only through inline schemas, see above
		}
		var cands [][]string
		for _, kw := range []string{"allOf", "anyOf", "oneOf", "items"} {
			switch x := nm[kw].(type) {
			case []interface{}:
				cands = append(cands, []string{kw, fmt.Sprint(len(x))})
			case map[string]interface{}:
				if _, isRef := x["$ref"]; !isRef {
					cands = append(cands, []string{kw, "0"})
				}
			}
		}
		for _, kw := range []string{"properties", "definitions", "patternProperties"} {
			if _, has := nm[kw].(map[string]interface{}); has {
				cands = append(cands, []string{kw, "absent-name"})
			}
		}
		if len(cands) == 0 {
			return nil
		}
		return append(append([]string{}, t.toks...), cands[g.r.Intn(len(cands))]...)
	}
	paths, _ := doc["paths"].(map[string]interface{})
	var cands [][]string
	for _, p := range sortedKeys(paths) {
		pi, _ := paths[p].(map[string]interface{})
		if _, isRef := pi["$ref"]; isRef || pi == nil {
			continue
		}
		if kind == "pathItem" {
			cands = append(cands, []string{"paths", p + "-absent"})
			continue
		}
		if ps, ok := pi["parameters"].([]interface{}); ok && kind == "parameter" {
			cands = append(cands, []string{"paths", p, "parameters", fmt.Sprint(len(ps))})
		}
		for _, opn := range sortedKeys(pi) {
			op, _ := pi[opn].(map[string]interface{})
			if op == nil || opn == "parameters" {
				continue
			}
			if ps, ok := op["parameters"].([]interface{}); ok && kind == "parameter" {
				cands = append(cands, []string{"paths", p, opn, "parameters", fmt.Sprint(len(ps))})
			}
			if rs, ok := op["responses"].(map[string]interface{}); ok && kind == "response" {
				for _, code := range []string{"200", "404", "500", "default"} {
					if _, has := rs[code]; !has {
						cands = append(cands, []string{"paths", p, opn, "responses", code})
					}
				}
			}
		}
	}
	if len(cands) == 0 {
		return nil
	}
	return cands[g.r.Intn(len(cands))]
}

func (g *worldGen) fillSlots() {
	// deterministic order of targets
	sort.SliceStable(g.targets, func(i, j int) bool { return g.targets[i].rank < g.targets[j].rank })
	for si, s := range g.slots {
		var cands []*target
		for _, t := range g.targets {
			if t.kind != s.kind {
				continue
			}
			if !g.o.Nested && !t.top {
				continue
			}
			if (!g.o.Cyclic || s.kind != "schema") && t.rank <= s.rank {
				continue // parameter/response/path-item references stay well-founded (no element that refers only to itself)
			}
			cands = append(cands, t)
		}
		force := g.o.Force
		if si == 0 && force != nil {
			var fc []*target
			for _, t := range cands {
				if dirRelation(s.doc, t.doc) == force.Dir || (force.Dir == "root" && t.doc == s.doc) {
					fc = append(fc, t)
				}
			}
			if len(fc) > 0 {
				cands = fc
			}
		}
		if len(cands) == 0 {
			// no admissible target: turn the holder into an inline leaf
			s.holder["title"] = "leaf(no-target)"
			if s.kind != "schema" {
				s.holder["description"] = "leaf(no-target)"
			}
			delete(s.holder, "description")
			if s.kind == "parameter" {
				s.holder["name"], s.holder["in"], s.holder["type"] = "leafp", "query", "string"
				delete(s.holder, "title")
			}
			if s.kind == "response" {
				s.holder["description"] = "leaf(no-target)"
				delete(s.holder, "title")
			}
			if s.kind == "pathItem" {
				delete(s.holder, "title")
				s.holder["x-mark"] = "leaf(no-target)"
			}
			g.feature("slot-without-target")
			continue
		}
		t := cands[g.r.Intn(len(cands))]
		toks := t.toks
		// faults
		f := g.r.Float64()
		switch {
		case f < g.o.Dangling:
			if s.kind == "schema" && g.r.Intn(2) == 0 {
				// a pointer through a keyword the target schema does not carry: on a typed root the lookup does not fail,
				// it yields nothing
				if node, ok := oracle.EvalPointer(g.w.Docs[t.doc], oracle.TokensToPointer(toks)); ok {
					// only through inline schemas (they carry a title): a pointer through a $ref holder designates nothing textually,
					// while an expander that works in place may find what the holder was replaced with - not a well-formed reference
					if nm, isObj := node.(map[string]interface{}); isObj && nm["title"] != nil {
						for _, kw := range []string{"not", "additionalProperties", "additionalItems", "items", "xml", "externalDocs"} {
							if _, has := nm[kw]; !has {
								toks = append(append([]string{}, toks...), kw)
								g.feature("fault.dangling-pointer(absent-keyword)")
								break
							}
						}
					}
				}
			}
			if len(toks) == len(t.toks) && g.r.Intn(2) == 0 {
				// a near miss: a pointer that stops one step short of existing (an undeclared status code, one past the end of a list,
				// an absent name) - what a hand-written lookup with a forgotten presence check lets through
				if nm := g.nearMiss(s.kind, t); nm != nil {
					toks = nm
					g.feature("fault.dangling-pointer(near-miss)")
				}
			}
			if len(toks) == len(t.toks) {
				toks = append(append([]string{}, toks...), "nowhere")
			}
			g.feature("fault.dangling-pointer")
		case f < g.o.Dangling+g.o.IllTyped && s.kind == "schema":
			g.feature("fault.ill-typed")
			toks = []string{"illtyped", []string{"str", "num", "bool", "arr"}[g.r.Intn(4)]}
			if d, ok := g.w.Docs[t.doc].(map[string]interface{}); ok {
				d["illtyped"] = map[string]interface{}{"str": "a string", "num": float64(3), "bool": true, "arr": []interface{}{float64(1)}}
			}
		}
		forms := []string{"abs", "rel", "dotrel", "rootrel"}
		if g.o.AbsOnly {
			forms = forms[:1]
		}
		if t.doc == s.doc {
			forms = []string{"fragment", "fragment", "fragment", "samefile", "abs"}
			if g.o.FragmentOnly {
				forms = forms[:1]
			}
		}
		form := forms[g.r.Intn(len(forms))]
		if si == 0 && force != nil {
			form = force.Form
		}
		tdoc := t.doc
		if g.r.Float64() < g.o.MissingDoc && t.doc != s.doc {
			tdoc = strings.TrimSuffix(t.doc, ".json") + "-missing.json"
			g.feature("fault.missing-document")
		}
		if g.o.HollowDoc > 0 && t.doc != s.doc && tdoc == t.doc && len(toks) > 0 && g.r.Float64() < g.o.HollowDoc {
			// a document that exists and is the JSON value null: every pointer into it designates nothing
			// (only references with a pointer: whether null itself is an acceptable target is nobody's statement)
			tdoc = strings.TrimSuffix(t.doc, ".json") + "-hollow.json"
			g.w.Docs[tdoc] = nil
			g.feature("fault.hollow-document")
		}
		text := RefText(s.doc, tdoc, toks, form)
		s.holder["$ref"] = text
		if t.refHolder {
			g.feature("chain")
			if t.doc != s.doc {
				g.feature("chain-across-documents")
			}
		}
		rel := dirRelation(s.doc, t.doc)
		g.feature("ref." + s.label + "|" + form + "|" + rel)
		g.feature("holder." + s.kind)
		if t.doc != s.doc {
			g.feature("cross-document-ref")
		}
		if !t.top {
			g.feature("nested-target")
		}
	}
}

// Layouts move a generated world to other locations: the reference graph stays what it was, the documents are served from
// other schemes, hosts and ports. "ports": everything under http://h.example:8080 except the cousin directory, which becomes
// the namesake directory of the root's on another port of the same host; "hosts": the same with another host name;
// "schemes": the same host and port under https.
var Layouts = []string{"ports", "hosts", "schemes"}

func layoutMap(layout, u string) string {
	if layout == "noext" {
		// the root document is a file without an extension (a served path such as /v1/api)
		if u == RootURL {
			return "file:///w/a/api"
		}
		return u
	}
	const cousin = "file:///w/b/"
	other := map[string]string{"ports": "http://h.example:9090", "hosts": "http://g.example:8080", "schemes": "https://h.example:8080"}[layout]
	switch {
	case strings.HasPrefix(u, cousin):
		return other + "/w/a/" + strings.TrimPrefix(u, cousin)
	case strings.HasPrefix(u, "file://"):
		return "http://h.example:8080" + strings.TrimPrefix(u, "file://")
	case strings.HasPrefix(u, "http://h.example/"):
		return other + strings.TrimPrefix(u, "http://h.example")
	}
	return u
}

// Relocate returns a copy of the world (without schema ids) whose documents live where the layout puts them. A reference keeps its
// spelling when that still designates the moved target from the moved holder, and becomes an absolute URL otherwise.
func Relocate(w *World, layout string) *World {
	nw := &World{Docs: map[string]interface{}{}, Root: layoutMap(layout, w.Root), Features: map[string]int{"layout." + layout: 1}, Slots: w.Slots}
	for k, v := range w.Features {
		nw.Features[k] = v
	}
	for u, d := range w.Docs {
		from, _ := url.Parse(u)
		nu := layoutMap(layout, u)
		nfrom, _ := url.Parse(nu)
		var walk func(v interface{}) interface{}
		walk = func(v interface{}) interface{} {
			switch t := v.(type) {
			case map[string]interface{}:
				m := make(map[string]interface{}, len(t))
				for k, x := range t {
					if s, ok := x.(string); ok && k == "$ref" && !strings.HasPrefix(s, "#") {
						if ru, err := url.Parse(s); err == nil {
							abs := from.ResolveReference(ru)
							frag := ""
							if i := strings.Index(s, "#"); i >= 0 {
								frag = s[i:]
							}
							abs.Fragment, abs.RawFragment = "", ""
							nt := layoutMap(layout, abs.String())
							still := nfrom.ResolveReference(ru)
							still.Fragment, still.RawFragment = "", ""
							if ru.IsAbs() || still.String() != nt {
								if !ru.IsAbs() {
									nw.Features["layout.relative-became-absolute"]++
								}
								s = nt + frag
							}
						}
						m[k] = s
						continue
					}
					m[k] = walk(x)
				}
				return m
			case []interface{}:
				a := make([]interface{}, len(t))
				for i, x := range t {
					a[i] = walk(x)
				}
				return a
			}
			return v
		}
		nw.Docs[nu] = walk(d)
	}
	return nw
}
