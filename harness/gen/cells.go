package gen

import (
	"encoding/json"
	"net/url"
	"os"
	"path/filepath"
	"sort"
)

// FragmentEscape applies the escaping net/url uses when printing a fragment.
func FragmentEscape(s string) string {
	u := url.URL{Fragment: s}
	return u.EscapedFragment()
}

var defKind = map[string]string{
	"info": "info", "contact": "contact", "license": "license", "externalDocs": "externalDocs", "operation": "operation",
	"pathItem": "pathItem", "response": "response", "header": "header", "schema": "schema", "xml": "xml", "tag": "tag",
	"primitivesItems": "items", "bodyParameter": "parameter", "headerParameterSubSchema": "parameter",
	"queryParameterSubSchema": "parameter", "formDataParameterSubSchema": "parameter", "pathParameterSubSchema": "parameter",
	"basicAuthenticationSecurity": "securityScheme", "apiKeySecurity": "securityScheme", "oauth2ImplicitSecurity": "securityScheme",
	"oauth2PasswordSecurity": "securityScheme", "oauth2ApplicationSecurity": "securityScheme", "oauth2AccessCodeSecurity": "securityScheme",
}

// MetaCells lists every (kind, keyword) cell the pinned meta-schemas define: "<kind>.<keyword>", with "x-" for
// vendor extensions where patternProperties allows them. swaggerOnly leaves out the draft-4 keywords that the
// Swagger schema object does not admit.
func MetaCells(root string, swaggerOnly bool) ([]string, error) {
	var sw struct {
		Properties        map[string]json.RawMessage `json:"properties"`
		PatternProperties map[string]json.RawMessage `json:"patternProperties"`
		Definitions       map[string]struct {
			Properties        map[string]json.RawMessage `json:"properties"`
			PatternProperties map[string]json.RawMessage `json:"patternProperties"`
		} `json:"definitions"`
	}
	b, err := os.ReadFile(filepath.Join(root, "oracle-data", "swagger-2.0-schema.json"))
	if err != nil {
		return nil, err
	}
	if err := json.Unmarshal(b, &sw); err != nil {
		return nil, err
	}
	set := map[string]bool{}
	for k := range sw.Properties {
		set["swagger."+k] = true
	}
	if _, ok := sw.PatternProperties["^x-"]; ok {
		set["swagger.x-"] = true
	}
	for dn, d := range sw.Definitions {
		kind, ok := defKind[dn]
		if !ok {
			continue
		}
		for k := range d.Properties {
			set[kind+"."+k] = true
		}
		if _, ok := d.PatternProperties["^x-"]; ok {
			set[kind+".x-"] = true
		}
	}
	// pattern-keyed containers
	set["paths./"] = true
	set["paths.x-"] = true
	set["responses.code"] = true
	set["responses.default"] = true
	set["responses.x-"] = true
	if !swaggerOnly {
		var d4 struct {
			Properties map[string]json.RawMessage `json:"properties"`
		}
		b, err := os.ReadFile(filepath.Join(root, "oracle-data", "jsonschema-draft-04.json"))
		if err != nil {
			return nil, err
		}
		if err := json.Unmarshal(b, &d4); err != nil {
			return nil, err
		}
		for k := range d4.Properties {
			set["schema."+k] = true
		}
		set["schema.unknown"] = true // unknown keywords inside a schema (the statement names them)
	}
	var out []string
	for k := range set {
		out = append(out, k)
	}
	sort.Strings(out)
	return out, nil
}

// OptionalCells lists, per kind, the optional members G-DOC can emit alone (single-feature mode).
var OptionalCells = map[string][]string{
	"swagger":        {"host", "basePath", "schemes", "consumes", "produces", "definitions", "parameters", "responses", "securityDefinitions", "security", "tags", "externalDocs", "x-"},
	"info":           {"description", "termsOfService", "contact", "license", "x-"},
	"contact":        {"name", "url", "email", "x-"},
	"license":        {"url", "x-"},
	"externalDocs":   {"description", "x-"},
	"tag":            {"description", "externalDocs", "x-"},
	"xml":            {"name", "namespace", "prefix", "attribute", "wrapped", "x-"},
	"paths":          {"/", "x-"},
	"pathItem":       {"get", "put", "post", "delete", "options", "head", "patch", "parameters", "$ref", "x-"},
	"operation":      {"tags", "summary", "description", "externalDocs", "operationId", "produces", "consumes", "parameters", "schemes", "deprecated", "security", "x-"},
	"responses":      {"default", "code", "x-"},
	"response":       {"schema", "headers", "examples", "x-"},
	"header":         {"format", "items", "collectionFormat", "default", "maximum", "exclusiveMaximum", "minimum", "exclusiveMinimum", "maxLength", "minLength", "pattern", "maxItems", "minItems", "uniqueItems", "enum", "multipleOf", "description", "x-"},
	"items":          {"format", "items", "collectionFormat", "default", "maximum", "exclusiveMaximum", "minimum", "exclusiveMinimum", "maxLength", "minLength", "pattern", "maxItems", "minItems", "uniqueItems", "enum", "multipleOf", "x-"},
	"parameter":      {"description", "required", "schema", "allowEmptyValue", "format", "items", "collectionFormat", "default", "maximum", "exclusiveMaximum", "minimum", "exclusiveMinimum", "maxLength", "minLength", "pattern", "maxItems", "minItems", "uniqueItems", "enum", "multipleOf", "x-"},
	"securityScheme": {"description", "scopes", "flow", "authorizationUrl", "tokenUrl", "name", "in", "x-"},
	"schema": {"$ref", "type", "format", "title", "description", "discriminator", "default", "example", "maximum", "exclusiveMaximum", "minimum", "exclusiveMinimum",
		"maxLength", "minLength", "pattern", "maxItems", "minItems", "uniqueItems", "multipleOf", "enum", "maxProperties", "minProperties", "required", "readOnly",
		"xml", "externalDocs", "items", "allOf", "properties", "additionalProperties", "id", "$schema", "anyOf", "oneOf", "not", "patternProperties", "definitions",
		"dependencies", "additionalItems", "unknown", "x-"},
}

// StructuredCells flattens OptionalCells in a fixed order, plus one "minimal" cell per kind.
func StructuredCells() [][2]string {
	var out [][2]string
	for _, k := range DocKinds {
		out = append(out, [2]string{k, ""})
		for _, kw := range OptionalCells[k] {
			out = append(out, [2]string{k, kw})
		}
	}
	return out
}
