package gen

import (
	"fmt"
	"math/rand"
	"strings"

	"github.com/go-openapi/spec"
)

// Builder drives the exported builder API with a seeded script and keeps, next to the typed value, the JSON
// document the calls are supposed to have built (the "expected" model). Only exported constructors and methods
// are used, never struct literals.
type Builder struct {
	R     *rand.Rand
	Calls []string // the script, for witnesses
	dg    *DocGen
}

func NewBuilder(r *rand.Rand) *Builder {
	return &Builder{R: r, dg: NewDocGen(r)}
}

func (b *Builder) log(format string, args ...interface{}) {
	if len(b.Calls) < 200 {
		b.Calls = append(b.Calls, fmt.Sprintf(format, args...))
	}
}

func (b *Builder) name() string { return b.dg.name() }
func (b *Builder) text() string { return b.dg.text() }
func (b *Builder) payload() interface{} {
	return b.dg.payload(1, true)
}

var xOrderValues = []interface{}{float64(0), float64(1), float64(1), float64(2), "2", "10", 1.5, float64(-3), "abc", true, float64(1 << 40), "1"}

// extensions applies AddExtension / Extensions.Add calls.
func (b *Builder) extensions(add func(k string, v interface{}), exp obj, n int) {
	for i := 0; i < n; i++ {
		k := b.dg.extName()
		if b.R.Intn(3) == 0 && len(k) > 3 {
			k = strings.ToUpper(k[:3]) + k[3:] // the builder lower-cases keys
		}
		v := b.payload()
		add(k, v)
		exp[strings.ToLower(k)] = v
		b.log("AddExtension(%q, %v)", k, v)
	}
}

// Schema builds a schema with up to depth levels of properties.
func (b *Builder) Schema(depth int, withOrder bool) (*spec.Schema, obj) {
	exp := obj{}
	var s *spec.Schema
	switch b.R.Intn(6) {
	case 0:
		s = spec.StringProperty()
		exp["type"] = "string"
	case 1:
		s = spec.Int64Property()
		exp["type"], exp["format"] = "integer", "int64"
	case 2:
		s = spec.DateTimeProperty()
		exp["type"], exp["format"] = "string", "date-time"
	case 3:
		s = spec.BoolProperty()
		exp["type"] = "boolean"
	case 4:
		s = spec.RefProperty("#/definitions/" + b.dg.pick(plainNames))
		exp["$ref"] = s.Ref.String()
	default:
		s = new(spec.Schema)
		s.Typed("object", "")
		exp["type"] = "object"
	}
	b.log("new schema %v", exp)
	n := b.R.Intn(6)
	for i := 0; i < n; i++ {
		switch b.R.Intn(16) {
		case 0:
			t := b.text()
			s.WithTitle(t)
			exp["title"] = t
		case 1:
			t := b.text()
			s.WithDescription(t)
			exp["description"] = t
		case 2:
			v, ex := b.dg.num(), b.R.Intn(2) == 0
			s.WithMaximum(v, ex)
			exp["maximum"] = v
			if ex {
				exp["exclusiveMaximum"] = true
			} else {
				delete(exp, "exclusiveMaximum")
			}
		case 3:
			v, ex := b.dg.num(), b.R.Intn(2) == 0
			s.WithMinimum(v, ex)
			exp["minimum"] = v
			if ex {
				exp["exclusiveMinimum"] = true
			} else {
				delete(exp, "exclusiveMinimum")
			}
		case 4:
			v := int64(b.dg.nat())
			s.WithMaxLength(v)
			exp["maxLength"] = float64(v)
		case 5:
			v := int64(b.dg.nat())
			s.WithMinItems(v)
			exp["minItems"] = float64(v)
		case 6:
			vals := []interface{}{b.payload(), b.payload()}
			s.WithEnum(vals...)
			exp["enum"] = vals
		case 7:
			names := b.dg.names(2)
			s.WithRequired(names...)
			a := []interface{}{}
			for _, n := range names {
				a = append(a, n)
			}
			exp["required"] = a
		case 8:
			v := b.payload()
			s.WithDefault(v)
			exp["default"] = v
		case 9:
			v := b.payload()
			s.WithExample(v)
			exp["example"] = v
		case 10:
			s.AsNullable()
			exp["nullable"] = true
		case 11:
			s.AsReadOnly()
			exp["readOnly"] = true
		case 12:
			d, u := b.text(), "http://example.com/docs"
			s.WithExternalDocs(d, u)
			exp["externalDocs"] = obj{"description": d, "url": u}
		case 13:
			nm := b.text()
			s.WithXMLName(nm)
			x, _ := exp["xml"].(obj)
			if x == nil {
				x = obj{}
			}
			x["name"] = nm
			exp["xml"] = x
		case 14:
			p := "^" + b.dg.pick(plainNames) + "\\d+$"
			s.WithPattern(p)
			exp["pattern"] = p
		case 15:
			v := b.dg.num()
			s.WithMultipleOf(v)
			exp["multipleOf"] = v
		}
	}
	b.extensions(s.AddExtension, exp, b.R.Intn(3))
	if depth > 0 {
		if b.R.Intn(2) == 0 {
			np := 1 + b.R.Intn(5)
			props := obj{}
			for _, nm := range b.dg.names(np) {
				sub, subExp := b.Schema(depth-1, withOrder)
				if withOrder && b.R.Intn(3) != 0 {
					v := xOrderValues[b.R.Intn(len(xOrderValues))]
					sub.AddExtension("x-order", v)
					subExp["x-order"] = v
				}
				s.SetProperty(nm, *sub)
				props[nm] = subExp
				b.log("SetProperty(%q, ...)", nm)
			}
			exp["properties"] = props
		}
		if b.R.Intn(4) == 0 {
			a, ae := b.Schema(depth-1, withOrder)
			c, ce := b.Schema(depth-1, withOrder)
			s.WithAllOf(*a)
			s.AddToAllOf(*c)
			exp["allOf"] = []interface{}{ae, ce}
		}
		if b.R.Intn(5) == 0 {
			it, ie := b.Schema(depth-1, withOrder)
			s.CollectionOf(*it)
			exp["type"] = "array"
			exp["items"] = ie
		}
	}
	return s, exp
}

// Items builds an items object.
func (b *Builder) Items(depth int) (*spec.Items, obj) {
	it := spec.NewItems()
	exp := obj{}
	tp := b.dg.pick(simpleTypes)
	it.Typed(tp, "")
	exp["type"] = tp
	if depth > 0 && b.R.Intn(3) == 0 {
		sub, se := b.Items(depth - 1)
		it.CollectionOf(sub, "csv")
		exp["type"], exp["items"], exp["collectionFormat"] = "array", se, "csv"
	}
	if b.R.Intn(2) == 0 {
		v := int64(b.dg.nat())
		it.WithMinLength(v)
		exp["minLength"] = float64(v)
	}
	if b.R.Intn(3) == 0 {
		vals := []interface{}{b.payload()}
		it.WithEnum(vals...)
		exp["enum"] = vals
	}
	if b.R.Intn(3) == 0 {
		it.UniqueValues()
		exp["uniqueItems"] = true
	}
	b.extensions(it.AddExtension, exp, b.R.Intn(2))
	return it, exp
}

// Header builds a response header.
func (b *Builder) Header() (*spec.Header, obj) {
	h := spec.ResponseHeader()
	exp := obj{}
	tp := b.dg.pick(simpleTypes)
	h.Typed(tp, "")
	exp["type"] = tp
	if b.R.Intn(2) == 0 {
		d := b.text()
		h.WithDescription(d)
		exp["description"] = d
	}
	if b.R.Intn(3) == 0 {
		it, ie := b.Items(1)
		h.CollectionOf(it, "pipes")
		exp["type"], exp["items"], exp["collectionFormat"] = "array", ie, "pipes"
	}
	if b.R.Intn(2) == 0 {
		v := b.dg.num()
		h.WithMaximum(v, true)
		exp["maximum"], exp["exclusiveMaximum"] = v, true
	}
	if b.R.Intn(3) == 0 {
		v := b.payload()
		h.WithDefault(v)
		exp["default"] = v
	}
	b.extensions(h.AddExtension, exp, b.R.Intn(2))
	return h, exp
}

// Parameter builds a parameter.
func (b *Builder) Parameter() (*spec.Parameter, obj) {
	nm := b.name() + "p"
	exp := obj{"name": nm}
	var p *spec.Parameter
	switch b.R.Intn(5) {
	case 0:
		p = spec.QueryParam(nm)
		exp["in"] = "query"
	case 1:
		p = spec.HeaderParam(nm)
		exp["in"], exp["required"] = "header", true
	case 2:
		p = spec.PathParam(nm)
		exp["in"], exp["required"] = "path", true
	case 3:
		s, se := b.Schema(1, false)
		p = spec.BodyParam(nm, s)
		exp["in"], exp["schema"] = "body", se
	default:
		p = spec.FormDataParam(nm)
		exp["in"] = "formData"
	}
	if exp["in"] != "body" {
		tp := b.dg.pick(simpleTypes)
		p.Typed(tp, "")
		exp["type"] = tp
		if b.R.Intn(3) == 0 {
			it, ie := b.Items(1)
			p.CollectionOf(it, "ssv")
			exp["type"], exp["items"], exp["collectionFormat"] = "array", ie, "ssv"
		}
		if b.R.Intn(3) == 0 {
			v := int64(b.dg.nat())
			p.WithMaxItems(v)
			exp["maxItems"] = float64(v)
		}
		if b.R.Intn(3) == 0 {
			v := b.payload()
			p.WithDefault(v) // implies optional
			exp["default"] = v
			delete(exp, "required")
		}
		if b.R.Intn(4) == 0 {
			p.AllowsEmptyValues()
			exp["allowEmptyValue"] = true
		}
	}
	if b.R.Intn(2) == 0 {
		d := b.text()
		p.WithDescription(d)
		exp["description"] = d
	}
	b.extensions(p.AddExtension, exp, b.R.Intn(2))
	return p, exp
}

// Response builds a response.
func (b *Builder) Response() (*spec.Response, obj) {
	r := spec.NewResponse()
	d := b.text()
	r.WithDescription(d)
	exp := obj{"description": d}
	if b.R.Intn(2) == 0 {
		s, se := b.Schema(1, false)
		r.WithSchema(s)
		exp["schema"] = se
	}
	if n := b.R.Intn(3); n > 0 {
		hs := obj{}
		for _, nm := range b.dg.names(n) {
			h, he := b.Header()
			r.AddHeader(nm, h)
			hs[nm] = he
			b.log("AddHeader(%q)", nm)
		}
		if b.R.Intn(4) == 0 {
			for nm := range hs {
				r.RemoveHeader(nm)
				delete(hs, nm)
				b.log("RemoveHeader(%q)", nm)
				break
			}
		}
		if len(hs) > 0 {
			exp["headers"] = hs
		}
	}
	if n := b.R.Intn(3); n > 0 {
		es := obj{}
		for i := 0; i < n; i++ {
			mt := b.dg.pick(mimePool)
			if b.R.Intn(3) == 0 {
				mt = b.name()
			}
			v := b.payload()
			r.AddExample(mt, v)
			es[mt] = v
		}
		exp["examples"] = es
	}
	b.extensions(r.AddExtension, exp, b.R.Intn(2))
	return r, exp
}

// Operation builds an operation.
func (b *Builder) Operation() (*spec.Operation, obj) {
	id := b.name() + "Op"
	op := spec.NewOperation(id)
	exp := obj{"operationId": id}
	if b.R.Intn(2) == 0 {
		t := b.text()
		op.WithSummary(t)
		exp["summary"] = t
	}
	if b.R.Intn(2) == 0 {
		op.WithConsumes("application/json").WithConsumes("text/plain")
		exp["consumes"] = []interface{}{"application/json", "text/plain"}
	}
	if b.R.Intn(2) == 0 {
		op.WithTags(b.text(), "t")
		exp["tags"] = []interface{}{op.Tags[0], "t"}
	}
	if b.R.Intn(3) == 0 {
		op.Deprecate()
		exp["deprecated"] = true
	}
	// parameters: AddParam replaces a parameter with the same name and location
	if n := b.R.Intn(4); n > 0 {
		var list []obj
		for i := 0; i < n; i++ {
			p, pe := b.Parameter()
			op.AddParam(p)
			replaced := false
			for j := range list {
				if list[j]["name"] == pe["name"] && list[j]["in"] == pe["in"] {
					list[j] = pe
					replaced = true
				}
			}
			if !replaced {
				list = append(list, pe)
			}
		}
		if b.R.Intn(4) == 0 {
			op.RemoveParam(list[0]["name"].(string), list[0]["in"].(string))
			list = list[1:]
		}
		if len(list) > 0 {
			a := []interface{}{}
			for _, e := range list {
				a = append(a, e)
			}
			exp["parameters"] = a
		}
	}
	if n := b.R.Intn(3); n > 0 {
		var sec []interface{}
		for i := 0; i < n; i++ {
			nm := b.name()
			var scopes []string
			for j, m := 0, b.R.Intn(3); j < m; j++ {
				scopes = append(scopes, "s:"+b.dg.pick(plainNames))
			}
			op.SecuredWith(nm, scopes...)
			var sv interface{}
			if scopes != nil {
				a := []interface{}{}
				for _, s := range scopes {
					a = append(a, s)
				}
				sv = a
			}
			sec = append(sec, obj{nm: sv})
		}
		exp["security"] = sec
	}
	resps := obj{}
	if b.R.Intn(2) == 0 {
		r, re := b.Response()
		op.WithDefaultResponse(r)
		resps["default"] = re
	}
	for i, n := 0, 1+b.R.Intn(2); i < n; i++ {
		code := []int{200, 201, 404, 500}[b.R.Intn(4)]
		r, re := b.Response()
		op.RespondsWith(code, r)
		resps[fmt.Sprint(code)] = re
	}
	exp["responses"] = resps
	b.extensions(op.AddExtension, exp, b.R.Intn(2))
	return op, exp
}

// SecurityScheme builds a security scheme.
func (b *Builder) SecurityScheme() (*spec.SecurityScheme, obj) {
	var s *spec.SecurityScheme
	exp := obj{}
	u1, u2 := "http://example.com/auth", "http://example.com/token"
	switch b.R.Intn(6) {
	case 0:
		s = spec.BasicAuth()
		exp["type"] = "basic"
	case 1:
		nm := b.name() + "k"
		s = spec.APIKeyAuth(nm, "header")
		exp["type"], exp["name"], exp["in"] = "apiKey", nm, "header"
	case 2:
		s = spec.OAuth2Implicit(u1)
		exp["type"], exp["flow"], exp["authorizationUrl"] = "oauth2", "implicit", u1
	case 3:
		s = spec.OAuth2Password(u2)
		exp["type"], exp["flow"], exp["tokenUrl"] = "oauth2", "password", u2
	case 4:
		s = spec.OAuth2Application(u2)
		exp["type"], exp["flow"], exp["tokenUrl"] = "oauth2", "application", u2
	default:
		s = spec.OAuth2AccessToken(u1, u2)
		exp["type"], exp["flow"], exp["authorizationUrl"], exp["tokenUrl"] = "oauth2", "accessCode", u1, u2
	}
	if exp["type"] == "oauth2" {
		if n := b.R.Intn(4); n > 0 {
			sc := obj{}
			for _, nm := range b.dg.names(n) {
				d := b.text()
				s.AddScope(nm, d)
				sc[nm] = d
			}
			exp["scopes"] = sc
		}
	}
	b.extensions(s.AddExtension, exp, b.R.Intn(2))
	return s, exp
}
