package oracle

import (
	"fmt"
	"sort"
	"strconv"
	"strings"
)

// OWorld is the reference model's view of a set of documents: URL -> generic JSON.
type OWorld struct {
	Docs map[string]interface{}
}

// State designates a node: a document URL and an RFC 6901 pointer (text form, "" = whole document).
type State struct {
	Doc string
	Ptr string
}

func (s State) String() string { return s.Doc + "#" + s.Ptr }

// Lookup evaluates a state.
func (w *OWorld) Lookup(st State) (interface{}, bool) {
	d, ok := w.Docs[st.Doc]
	if !ok {
		return nil, false
	}
	return EvalPointer(d, st.Ptr)
}

// RefTarget resolves reference text found in document doc (RFC 3986 against the document's URL).
func RefTarget(doc, ref string) (State, error) {
	d, frag, err := Resolve(doc, ref)
	if err != nil {
		return State{}, err
	}
	if frag != "" && !strings.HasPrefix(frag, "/") {
		// not a JSON pointer: the package then designates the whole document
		frag = ""
	}
	return State{Doc: d, Ptr: frag}, nil
}

// RefOf returns the $ref text of a holder node.
func RefOf(node interface{}) (string, bool) {
	m, ok := node.(map[string]interface{})
	if !ok {
		return "", false
	}
	r, ok := m["$ref"].(string)
	return r, ok
}

// Resolved is what a state denotes after following its chain of pure $refs.
type Resolved struct {
	Class string // node | bottom | unres
	St    State  // the state finally reached (node) or the unresolvable target (unres)
	Node  interface{}
	Hops  int
	Via   string // text of the last $ref followed ("" when none)
}

// Deref follows "$ref replaces its holder" from st until a non-$ref node.
func (w *OWorld) Deref(st State) Resolved {
	seen := map[State]bool{}
	hops := 0
	via := ""
	for {
		if seen[st] {
			return Resolved{Class: "bottom", St: st, Hops: hops, Via: via}
		}
		seen[st] = true
		node, ok := w.Lookup(st)
		if !ok {
			return Resolved{Class: "unres", St: st, Hops: hops, Via: via}
		}
		if hops > 0 && !isObj(node) {
			// a $ref whose target is a string, number, boolean or array designates no element
			return Resolved{Class: "unres", St: st, Hops: hops, Via: via}
		}
		ref, isRef := RefOf(node)
		if !isRef {
			return Resolved{Class: "node", St: st, Node: node, Hops: hops, Via: via}
		}
		via = ref
		t, err := RefTarget(st.Doc, ref)
		if err != nil {
			return Resolved{Class: "unres", St: State{Doc: st.Doc, Ptr: "?" + ref}, Hops: hops, Via: via}
		}
		st = t
		hops++
	}
}

// Child is a labelled sub-element position.
type Child struct {
	Label string
	St    State
	Kind  string
}

func childState(st State, toks ...string) State {
	return State{Doc: st.Doc, Ptr: st.Ptr + TokensToPointer(toks)}
}

var schemaMapPositions = []string{"properties", "patternProperties", "definitions", "dependencies"}
var schemaListPositions = []string{"allOf", "anyOf", "oneOf"}
var schemaSinglePositions = []string{"not", "additionalProperties", "additionalItems"}
var opNames = []string{"get", "put", "post", "delete", "options", "head", "patch"}

func isObj(v interface{}) bool { _, ok := v.(map[string]interface{}); return ok }

// Split separates a (non-$ref) node of the given kind into its head and its labelled children.
func Split(node interface{}, st State, kind string) (head interface{}, children []Child) {
	m, ok := node.(map[string]interface{})
	if !ok {
		return node, nil
	}
	h := map[string]interface{}{}
	for k, v := range m {
		h[k] = v
	}
	add := func(kind string, toks ...string) {
		children = append(children, Child{Label: TokensToPointer(toks), St: childState(st, toks...), Kind: kind})
	}
	switch kind {
	case "schema":
		for _, pos := range schemaMapPositions {
			if mm, ok := m[pos].(map[string]interface{}); ok {
				rest := map[string]interface{}{}
				for k, v := range mm {
					if isObj(v) {
						add("schema", pos, k)
					} else {
						rest[k] = v
					}
				}
				if len(rest) > 0 {
					h[pos] = rest
				} else {
					h[pos] = map[string]interface{}{"<names>": sortedKeys(mm)}
				}
			}
		}
		for _, pos := range schemaListPositions {
			if a, ok := m[pos].([]interface{}); ok {
				all := true
				for _, v := range a {
					if !isObj(v) {
						all = false
					}
				}
				if all {
					for i := range a {
						add("schema", pos, strconv.Itoa(i))
					}
					h[pos] = fmt.Sprintf("<%d schemas>", len(a))
				}
			}
		}
		for _, pos := range schemaSinglePositions {
			if isObj(m[pos]) {
				add("schema", pos)
				h[pos] = "<schema>"
			}
		}
		switch it := m["items"].(type) {
		case map[string]interface{}:
			add("schema", "items")
			h["items"] = "<schema>"
		case []interface{}:
			all := true
			for _, v := range it {
				if !isObj(v) {
					all = false
				}
			}
			if all {
				for i := range it {
					add("schema", "items", strconv.Itoa(i))
				}
				h["items"] = fmt.Sprintf("<%d schemas>", len(it))
			}
		}
	case "parameter", "response":
		if isObj(m["schema"]) {
			add("schema", "schema")
			h["schema"] = "<schema>"
		}
	case "pathItem":
		if a, ok := m["parameters"].([]interface{}); ok {
			for i := range a {
				add("parameter", "parameters", strconv.Itoa(i))
			}
			h["parameters"] = fmt.Sprintf("<%d parameters>", len(a))
		}
		for _, opn := range opNames {
			op, ok := m[opn].(map[string]interface{})
			if !ok {
				continue
			}
			oh := map[string]interface{}{}
			for k, v := range op {
				oh[k] = v
			}
			if a, ok := op["parameters"].([]interface{}); ok {
				for i := range a {
					add("parameter", opn, "parameters", strconv.Itoa(i))
				}
				oh["parameters"] = fmt.Sprintf("<%d parameters>", len(a))
			}
			if rs, ok := op["responses"].(map[string]interface{}); ok {
				rh := map[string]interface{}{}
				for code, v := range rs {
					if strings.HasPrefix(code, "x-") || !isObj(v) {
						rh[code] = v
						continue
					}
					add("response", opn, "responses", code)
					rh[code] = "<response>"
				}
				oh["responses"] = rh
			}
			h[opn] = oh
		}
	}
	sort.Slice(children, func(i, j int) bool { return children[i].Label < children[j].Label })
	return h, children
}

func sortedKeys(m map[string]interface{}) []interface{} {
	var ks []string
	for k := range m {
		ks = append(ks, k)
	}
	sort.Strings(ks)
	out := make([]interface{}, len(ks))
	for i, k := range ks {
		out[i] = k
	}
	return out
}

// Mismatch describes where two denotations differ.
type Mismatch struct {
	Path   string // labels from the compared position down
	Reason string
	A, B   string // the two states
	Via    string // text of the unresolvable $ref concerned, if any
}

type pairKey struct {
	a, b State
	kind string
}

// Bisimilar decides whether state a of world wa and state b of world wb denote the same (possibly infinite) tree.
// The first mismatch found is returned.
func Bisimilar(wa *OWorld, a State, wb *OWorld, b State, kind string) *Mismatch {
	return BisimilarOpts(wa, a, wb, b, kind, BisimOpts{})
}

// BisimOpts tunes the comparison of unresolvable references (continue-on-error expansion).
type BisimOpts struct {
	// UnresByText: two unresolvable $refs are the same when their text is (left verbatim), not their target.
	UnresByText bool
	// WildcardNonSchemaUnres: where the first side is an unresolvable parameter/response/path-item $ref, anything is accepted.
	WildcardNonSchemaUnres bool
}

func BisimilarOpts(wa *OWorld, a State, wb *OWorld, b State, kind string, o BisimOpts) *Mismatch {
	assumed := map[pairKey]bool{}
	bo = o
	return bisim(wa, a, wb, b, kind, "", assumed, 0)
}

var bo BisimOpts // single-threaded use

func bisim(wa *OWorld, a State, wb *OWorld, b State, kind, path string, assumed map[pairKey]bool, depth int) *Mismatch {
	ra, rb := wa.Deref(a), wb.Deref(b)
	mm := func(reason string) *Mismatch {
		return &Mismatch{Path: path, Reason: reason, A: ra.St.String(), B: rb.St.String()}
	}
	if ra.Class == "unres" && kind != "schema" && bo.WildcardNonSchemaUnres {
		return nil
	}
	if ra.Class == "unres" && bo.UnresByText {
		// "left verbatim where it was": the second side must hold the same $ref text at this position, whatever that
		// text happens to designate when it is read from the root's location
		if rb.Class == "unres" && rb.Via == ra.Via {
			return nil // the same chain ends in the same unresolvable text (e.g. both sides read in an unmodified document)
		}
		bn, _ := wb.Lookup(b)
		if text, isRef := RefOf(bn); !isRef || text != ra.Via {
			m := mm(fmt.Sprintf("unresolvable $ref not left verbatim: %q vs %s", ra.Via, abbrev(Text(bn))))
			m.Via = ra.Via
			return m
		}
		return nil
	}
	if ra.Class != rb.Class {
		return mm(fmt.Sprintf("one side is %s, the other %s", ra.Class, rb.Class))
	}
	switch ra.Class {
	case "bottom":
		return nil
	case "unres":
		if ra.St != rb.St {
			return mm("different unresolvable targets")
		}
		return nil
	}
	key := pairKey{ra.St, rb.St, kind}
	if assumed[key] {
		return nil
	}
	assumed[key] = true
	if depth > 5000 {
		return mm("comparison too deep")
	}
	ha, ca := Split(ra.Node, ra.St, kind)
	hb, cb := Split(rb.Node, rb.St, kind)
	if !Equal(ha, hb) {
		d := Diff(ha, hb)
		reason := "heads differ"
		if len(d) > 0 {
			reason = fmt.Sprintf("heads differ at %s: %s vs %s", d[0].Pointer(), abbrev(Text(d[0].Before)), abbrev(Text(d[0].After)))
		}
		return mm(reason)
	}
	if len(ca) != len(cb) {
		return mm("different sub-element positions")
	}
	for i := range ca {
		if ca[i].Label != cb[i].Label || ca[i].Kind != cb[i].Kind {
			return mm("different sub-element positions: " + ca[i].Label + " vs " + cb[i].Label)
		}
		if m := bisim(wa, ca[i].St, wb, cb[i].St, ca[i].Kind, path+ca[i].Label, assumed, depth+1); m != nil {
			return m
		}
	}
	return nil
}

func abbrev(s string) string {
	if len(s) > 100 {
		return s[:100] + "..."
	}
	return s
}

// ---------------------------------------------------------------- O-CYC

// Graph exploration over states of one world.

type edge struct {
	to    State
	kind  string
	isRef bool
}

func (w *OWorld) edges(st State, kind string) []edge {
	node, ok := w.Lookup(st)
	if !ok {
		return nil
	}
	if ref, isRef := RefOf(node); isRef {
		t, err := RefTarget(st.Doc, ref)
		if err != nil {
			return nil
		}
		return []edge{{to: t, kind: kind, isRef: true}}
	}
	_, ch := Split(node, st, kind)
	out := make([]edge, 0, len(ch))
	for _, c := range ch {
		out = append(out, edge{to: c.St, kind: c.Kind})
	}
	return out
}

type cycKey struct {
	st      State
	kind    string
	usedRef bool
}

// OnCycle reports whether st reaches itself through at least one $ref edge.
func (w *OWorld) OnCycle(st State, kind string) bool {
	seen := map[cycKey]bool{}
	stack := []cycKey{{st, kind, false}}
	first := true
	for len(stack) > 0 {
		cur := stack[len(stack)-1]
		stack = stack[:len(stack)-1]
		if !first && cur.st == st && cur.usedRef {
			return true
		}
		first = false
		if seen[cur] {
			continue
		}
		seen[cur] = true
		for _, e := range w.edges(cur.st, cur.kind) {
			stack = append(stack, cycKey{e.to, e.kind, cur.usedRef || e.isRef})
		}
	}
	return false
}

// RefInfo describes one $ref holder reachable from a set of start states.
type RefInfo struct {
	Holder     State
	Kind       string
	Text       string
	Target     State
	Resolvable bool // the target exists (for schema holders: and is an object)
	IllTyped   bool
}

// Reachable walks containment and resolvable $ref edges from the start states and returns every $ref holder met
// (the references an expansion has to follow) plus the number of distinct states visited.
// skipSchemaRefs: schema $refs are not followed (skip-schemas mode).
func (w *OWorld) Reachable(starts []Child, skipSchemaRefs bool) (refs []RefInfo, states int) {
	type k struct {
		st   State
		kind string
	}
	seen := map[k]bool{}
	var stack []k
	for _, s := range starts {
		stack = append(stack, k{s.St, s.Kind})
	}
	for len(stack) > 0 {
		cur := stack[len(stack)-1]
		stack = stack[:len(stack)-1]
		if seen[cur] {
			continue
		}
		seen[cur] = true
		node, ok := w.Lookup(cur.st)
		if !ok {
			continue
		}
		if ref, isRef := RefOf(node); isRef {
			ri := RefInfo{Holder: cur.st, Kind: cur.kind, Text: ref}
			t, err := RefTarget(cur.st.Doc, ref)
			if err == nil {
				ri.Target = t
				tn, ok := w.Lookup(t)
				if ok {
					if isObj(tn) {
						ri.Resolvable = true
					} else {
						ri.IllTyped = true
					}
				}
			}
			refs = append(refs, ri)
			if ri.Resolvable && !(skipSchemaRefs && cur.kind == "schema") {
				stack = append(stack, k{t, cur.kind})
			}
			continue
		}
		_, ch := Split(node, cur.st, cur.kind)
		for _, c := range ch {
			stack = append(stack, k{c.St, c.Kind})
		}
	}
	return refs, len(seen)
}

// Acyclic reports whether no state reachable from the starts lies on a cycle.
func (w *OWorld) Acyclic(starts []Child) bool {
	// colour DFS over (state, kind)
	type k struct {
		st   State
		kind string
	}
	colour := map[k]int{}
	var visit func(n k) bool
	visit = func(n k) bool {
		switch colour[n] {
		case 1:
			return false
		case 2:
			return true
		}
		colour[n] = 1
		for _, e := range w.edges(n.st, n.kind) {
			if !visit(k{e.to, e.kind}) {
				return false
			}
		}
		colour[n] = 2
		return true
	}
	for _, s := range starts {
		if !visit(k{s.St, s.Kind}) {
			return false
		}
	}
	return true
}

// Unfolding returns the size of the unfolding from the starts with the cut at the first repetition of a $ref target
// on the current path (an upper bound of the work of any expander that cuts on the path or earlier). Capped at limit.
func (w *OWorld) Unfolding(starts []Child, limit int) int {
	count := 0
	onPath := map[State]bool{}
	var visit func(st State, kind string)
	visit = func(st State, kind string) {
		if count >= limit {
			return
		}
		count++
		node, ok := w.Lookup(st)
		if !ok {
			return
		}
		if ref, isRef := RefOf(node); isRef {
			t, err := RefTarget(st.Doc, ref)
			if err != nil || onPath[t] {
				return
			}
			onPath[t] = true
			visit(t, kind)
			delete(onPath, t)
			return
		}
		_, ch := Split(node, st, kind)
		for _, c := range ch {
			visit(c.St, c.Kind)
		}
	}
	for _, s := range starts {
		visit(s.St, s.Kind)
	}
	return count
}

// SpecStarts lists the positions whole-specification expansion works on.
func SpecStarts(w *OWorld, root string, withDefinitions bool) []Child {
	var out []Child
	d, ok := w.Docs[root].(map[string]interface{})
	if !ok {
		return nil
	}
	section := func(name, kind string) {
		m, ok := d[name].(map[string]interface{})
		if !ok {
			return
		}
		for _, k := range sortedKeys(m) {
			ks := k.(string)
			if name == "paths" && !strings.HasPrefix(ks, "/") {
				continue
			}
			out = append(out, Child{Label: TokensToPointer([]string{name, ks}), St: State{Doc: root, Ptr: TokensToPointer([]string{name, ks})}, Kind: kind})
		}
	}
	if withDefinitions {
		section("definitions", "schema")
	}
	section("parameters", "parameter")
	section("responses", "response")
	section("paths", "pathItem")
	return out
}

// AllRefs lists every $ref holder left in a document at schema/parameter/response/path-item positions reachable by
// containment from the spec positions (no $ref is followed).
func AllRefs(w *OWorld, starts []Child) []RefInfo {
	var refs []RefInfo
	var visit func(st State, kind string)
	visit = func(st State, kind string) {
		node, ok := w.Lookup(st)
		if !ok {
			return
		}
		if ref, isRef := RefOf(node); isRef {
			ri := RefInfo{Holder: st, Kind: kind, Text: ref}
			if t, err := RefTarget(st.Doc, ref); err == nil {
				ri.Target = t
				if tn, ok := w.Lookup(t); ok && isObj(tn) {
					ri.Resolvable = true
				}
			}
			refs = append(refs, ri)
			return
		}
		_, ch := Split(node, st, kind)
		for _, c := range ch {
			visit(c.St, c.Kind)
		}
	}
	for _, s := range starts {
		visit(s.St, s.Kind)
	}
	return refs
}
