package oracle

import (
	"fmt"
	"strconv"
	"strings"
)

// PointerTokens parses RFC 6901 pointer text (already percent-decoded) into tokens.
// "" designates the whole document.
func PointerTokens(ptr string) ([]string, error) {
	if ptr == "" {
		return nil, nil
	}
	if ptr[0] != '/' {
		return nil, fmt.Errorf("pointer %q does not start with /", ptr)
	}
	parts := strings.Split(ptr[1:], "/")
	for i, p := range parts {
		// RFC 6901 §4: first ~1 -> /, then ~0 -> ~
		p = strings.ReplaceAll(p, "~1", "/")
		p = strings.ReplaceAll(p, "~0", "~")
		parts[i] = p
	}
	return parts, nil
}

// Eval evaluates tokens on a generic JSON document. ok=false when the pointer designates nothing.
func Eval(doc interface{}, toks []string) (interface{}, bool) {
	cur := doc
	for _, t := range toks {
		switch x := cur.(type) {
		case map[string]interface{}:
			v, ok := x[t]
			if !ok {
				return nil, false
			}
			cur = v
		case []interface{}:
			if t == "" || (len(t) > 1 && t[0] == '0') {
				return nil, false
			}
			for _, c := range t {
				if c < '0' || c > '9' {
					return nil, false
				}
			}
			i, err := strconv.Atoi(t)
			if err != nil || i < 0 || i >= len(x) {
				return nil, false
			}
			cur = x[i]
		default:
			return nil, false
		}
	}
	return cur, true
}

// EvalPointer = PointerTokens + Eval.
func EvalPointer(doc interface{}, ptr string) (interface{}, bool) {
	toks, err := PointerTokens(ptr)
	if err != nil {
		return nil, false
	}
	return Eval(doc, toks)
}
