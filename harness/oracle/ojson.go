// Package oracle holds the reference models the monitors compare observations with.
package oracle

import (
	"bytes"
	"encoding/json"
	"fmt"
	"io"
	"math/big"
	"sort"
	"strings"
)

// Parse decodes JSON text into generic values with exact numbers (json.Number).
func Parse(b []byte) (interface{}, error) {
	dec := json.NewDecoder(bytes.NewReader(b))
	dec.UseNumber()
	var v interface{}
	if err := dec.Decode(&v); err != nil {
		return nil, err
	}
	if _, err := dec.Token(); err != io.EOF {
		return nil, fmt.Errorf("trailing data after JSON value")
	}
	return v, nil
}

// MustParse panics on invalid input (generator-side use only).
func MustParse(s string) interface{} {
	v, err := Parse([]byte(s))
	if err != nil {
		panic(fmt.Sprintf("%v in %s", err, s))
	}
	return v
}

// Norm converts any Go value (typed or generic) into the generic model via encoding/json.
func Norm(v interface{}) (interface{}, error) {
	b, err := json.Marshal(v)
	if err != nil {
		return nil, err
	}
	return Parse(b)
}

func numRat(n interface{}) (*big.Rat, bool) {
	switch x := n.(type) {
	case json.Number:
		r, ok := new(big.Rat).SetString(string(x))
		return r, ok
	case float64:
		r := new(big.Rat)
		if r.SetFloat64(x) == nil {
			return nil, false
		}
		return r, true
	case int:
		return new(big.Rat).SetInt64(int64(x)), true
	case int64:
		return new(big.Rat).SetInt64(x), true
	}
	return nil, false
}

func isNum(v interface{}) bool {
	switch v.(type) {
	case json.Number, float64, int, int64:
		return true
	}
	return false
}

// Equal is JSON value equality: objects unordered, arrays ordered, numbers as exact rationals.
func Equal(a, b interface{}) bool {
	if isNum(a) && isNum(b) {
		ra, ok1 := numRat(a)
		rb, ok2 := numRat(b)
		if !ok1 || !ok2 {
			return fmt.Sprint(a) == fmt.Sprint(b)
		}
		return ra.Cmp(rb) == 0
	}
	switch x := a.(type) {
	case nil:
		return b == nil
	case bool:
		y, ok := b.(bool)
		return ok && x == y
	case string:
		y, ok := b.(string)
		return ok && x == y
	case []interface{}:
		y, ok := b.([]interface{})
		if !ok || len(x) != len(y) {
			return false
		}
		for i := range x {
			if !Equal(x[i], y[i]) {
				return false
			}
		}
		return true
	case map[string]interface{}:
		y, ok := b.(map[string]interface{})
		if !ok || len(x) != len(y) {
			return false
		}
		for k, v := range x {
			w, ok := y[k]
			if !ok || !Equal(v, w) {
				return false
			}
		}
		return true
	}
	return false
}

// DiffItem is one difference between two JSON values.
type DiffItem struct {
	Path   []string // tokens
	Kind   string   // lost | added | changed
	Before interface{}
	After  interface{}
}

func (d DiffItem) Pointer() string { return TokensToPointer(d.Path) }

// Diff lists the differences between before and after.
func Diff(before, after interface{}) []DiffItem {
	var out []DiffItem
	diff(nil, before, after, &out)
	return out
}

func diff(path []string, a, b interface{}, out *[]DiffItem) {
	if Equal(a, b) {
		return
	}
	am, aok := a.(map[string]interface{})
	bm, bok := b.(map[string]interface{})
	if aok && bok {
		keys := map[string]bool{}
		for k := range am {
			keys[k] = true
		}
		for k := range bm {
			keys[k] = true
		}
		var ks []string
		for k := range keys {
			ks = append(ks, k)
		}
		sort.Strings(ks)
		for _, k := range ks {
			av, ain := am[k]
			bv, bin := bm[k]
			p := append(append([]string{}, path...), k)
			switch {
			case ain && !bin:
				*out = append(*out, DiffItem{Path: p, Kind: "lost", Before: av})
			case !ain && bin:
				*out = append(*out, DiffItem{Path: p, Kind: "added", After: bv})
			default:
				diff(p, av, bv, out)
			}
		}
		return
	}
	aa, aok := a.([]interface{})
	ba, bok := b.([]interface{})
	if aok && bok && len(aa) == len(ba) {
		for i := range aa {
			diff(append(append([]string{}, path...), fmt.Sprint(i)), aa[i], ba[i], out)
		}
		return
	}
	*out = append(*out, DiffItem{Path: append([]string{}, path...), Kind: "changed", Before: a, After: b})
}

// ValueClass gives a seed-independent description of a JSON value's shape.
func ValueClass(v interface{}) string {
	switch x := v.(type) {
	case nil:
		return "null"
	case bool:
		if x {
			return "true"
		}
		return "false"
	case string:
		if x == "" {
			return "empty-string"
		}
		return "string"
	case json.Number, float64, int, int64:
		r, ok := numRat(x)
		if ok && r.Sign() == 0 {
			return "zero"
		}
		return "number"
	case []interface{}:
		if len(x) == 0 {
			return "empty-array"
		}
		return "array"
	case map[string]interface{}:
		if len(x) == 0 {
			return "empty-object"
		}
		return "object"
	}
	return fmt.Sprintf("%T", v)
}

// ScanReport is what the token-level scanner found.
type ScanReport struct {
	Valid     bool
	Err       string
	Duplicate string // pointer of the first duplicated member name, "" if none
}

// Scan checks syntactic validity (one value, nothing after it) and duplicate member names per object.
func Scan(b []byte) ScanReport {
	dec := json.NewDecoder(bytes.NewReader(b))
	dec.UseNumber()
	rep := ScanReport{Valid: true}
	var walk func(path []string) error
	walk = func(path []string) error {
		tok, err := dec.Token()
		if err != nil {
			return err
		}
		switch d := tok.(type) {
		case json.Delim:
			switch d {
			case '{':
				seen := map[string]bool{}
				for dec.More() {
					kt, err := dec.Token()
					if err != nil {
						return err
					}
					k, ok := kt.(string)
					if !ok {
						return fmt.Errorf("non-string key")
					}
					if seen[k] && rep.Duplicate == "" {
						rep.Duplicate = TokensToPointer(append(append([]string{}, path...), k))
					}
					seen[k] = true
					if err := walk(append(append([]string{}, path...), k)); err != nil {
						return err
					}
				}
				if _, err := dec.Token(); err != nil {
					return err
				}
			case '[':
				i := 0
				for dec.More() {
					if err := walk(append(append([]string{}, path...), fmt.Sprint(i))); err != nil {
						return err
					}
					i++
				}
				if _, err := dec.Token(); err != nil {
					return err
				}
			}
		}
		return nil
	}
	if err := walk(nil); err != nil {
		rep.Valid = false
		rep.Err = err.Error()
		return rep
	}
	if _, err := dec.Token(); err != io.EOF {
		rep.Valid = false
		rep.Err = "trailing data"
	}
	return rep
}

// TokensToPointer renders RFC 6901 text.
func TokensToPointer(toks []string) string {
	var sb strings.Builder
	for _, t := range toks {
		sb.WriteByte('/')
		sb.WriteString(EscapeToken(t))
	}
	return sb.String()
}

func EscapeToken(t string) string {
	t = strings.ReplaceAll(t, "~", "~0")
	return strings.ReplaceAll(t, "/", "~1")
}

// DeepCopy copies a generic JSON value.
func DeepCopy(v interface{}) interface{} {
	switch x := v.(type) {
	case map[string]interface{}:
		m := make(map[string]interface{}, len(x))
		for k, w := range x {
			m[k] = DeepCopy(w)
		}
		return m
	case []interface{}:
		a := make([]interface{}, len(x))
		for i, w := range x {
			a[i] = DeepCopy(w)
		}
		return a
	}
	return v
}

// Text encodes a generic value (sorted keys).
func Text(v interface{}) string {
	var buf bytes.Buffer
	enc := json.NewEncoder(&buf)
	enc.SetEscapeHTML(false)
	if err := enc.Encode(v); err != nil {
		return fmt.Sprintf("<unencodable: %v>", err)
	}
	return strings.TrimRight(buf.String(), "\n")
}

// OrderedKeys returns, for every object in the text, the member names in textual order (keyed by pointer).
func OrderedKeys(b []byte) (map[string][]string, error) {
	dec := json.NewDecoder(bytes.NewReader(b))
	dec.UseNumber()
	out := map[string][]string{}
	var walk func(path []string) error
	walk = func(path []string) error {
		tok, err := dec.Token()
		if err != nil {
			return err
		}
		if d, ok := tok.(json.Delim); ok {
			switch d {
			case '{':
				ptr := TokensToPointer(path)
				out[ptr] = []string{}
				for dec.More() {
					kt, err := dec.Token()
					if err != nil {
						return err
					}
					k, _ := kt.(string)
					out[ptr] = append(out[ptr], k)
					if err := walk(append(append([]string{}, path...), k)); err != nil {
						return err
					}
				}
				_, err = dec.Token()
				return err
			case '[':
				for i := 0; dec.More(); i++ {
					if err := walk(append(append([]string{}, path...), fmt.Sprint(i))); err != nil {
						return err
					}
				}
				_, err = dec.Token()
				return err
			}
		}
		return nil
	}
	if err := walk(nil); err != nil {
		return nil, err
	}
	return out, nil
}
