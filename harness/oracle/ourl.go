package oracle

import (
	"net/url"
	"strings"
)

// Resolve is RFC 3986 §5.2 reference resolution through net/url (the package under test joins paths by hand).
// It returns the target document URL (no fragment) and the decoded fragment.
func Resolve(base, ref string) (doc string, fragment string, err error) {
	b, err := url.Parse(base)
	if err != nil {
		return "", "", err
	}
	r, err := url.Parse(ref)
	if err != nil {
		return "", "", err
	}
	t := b.ResolveReference(r)
	fragment = t.Fragment
	t.Fragment = ""
	t.RawFragment = ""
	return CanonURL(t), fragment, nil
}

// CanonURL renders a URL the way the package promises for references: lower-case scheme/host,
// file URLs with three slashes, no empty trailing '#'.
func CanonURL(u *url.URL) string {
	c := *u
	c.Scheme = strings.ToLower(c.Scheme)
	c.Host = strings.ToLower(c.Host)
	c.RawPath = ""
	c.OmitHost = false
	s := c.String()
	return s
}

// SameURL compares two URL strings up to escaping normalisation.
func SameURL(a, b string) bool {
	ua, err1 := url.Parse(a)
	ub, err2 := url.Parse(b)
	if err1 != nil || err2 != nil {
		return a == b
	}
	return CanonURL(ua) == CanonURL(ub) && ua.Fragment == ub.Fragment
}
