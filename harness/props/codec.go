package props

import (
	"encoding/json"
	"fmt"
	"regexp"
	"strings"
	"unicode"

	"github.com/go-openapi/spec"

	"verifharness/oracle"
)

// newTyped returns a pointer to a zero value of the model type of a kind.
func newTyped(kind string) interface{} {
	switch kind {
	case "swagger":
		return new(spec.Swagger)
	case "schema":
		return new(spec.Schema)
	case "parameter":
		return new(spec.Parameter)
	case "items":
		return new(spec.Items)
	case "header":
		return new(spec.Header)
	case "response":
		return new(spec.Response)
	case "responses":
		return new(spec.Responses)
	case "operation":
		return new(spec.Operation)
	case "pathItem":
		return new(spec.PathItem)
	case "paths":
		return new(spec.Paths)
	case "securityScheme":
		return new(spec.SecurityScheme)
	case "info":
		return new(spec.Info)
	case "contact":
		return new(spec.ContactInfo)
	case "license":
		return new(spec.License)
	case "tag":
		return new(spec.Tag)
	case "xml":
		return new(spec.XMLObject)
	case "externalDocs":
		return new(spec.ExternalDocumentation)
	// union and helper types (decode targets of C07)
	case "schemaOrBool":
		return new(spec.SchemaOrBool)
	case "schemaOrArray":
		return new(spec.SchemaOrArray)
	case "schemaOrStringArray":
		return new(spec.SchemaOrStringArray)
	case "stringOrArray":
		return new(spec.StringOrArray)
	case "ref":
		return new(spec.Ref)
	case "schemaURL":
		return new(spec.SchemaURL)
	case "schemaProperties":
		return new(spec.SchemaProperties)
	case "definitions":
		return new(spec.Definitions)
	case "securityDefinitions":
		return new(spec.SecurityDefinitions)
	case "dependencies":
		return new(spec.Dependencies)
	case "vendorExtensible":
		return new(spec.VendorExtensible)
	}
	panic("no typed model for kind " + kind)
}

// guard runs f and converts a panic into an error string with the top frames.
func guard(f func() error) (err error, panicked string) {
	defer func() {
		if r := recover(); r != nil {
			panicked = fmt.Sprintf("%v", r)
		}
	}()
	return f(), ""
}

var rxQuoted = regexp.MustCompile(`"(?:[^"\\]|\\.)*"|'[^']*'|[0-9]+`)

// errClass strips the input-specific parts of an error text.
func errClass(err error) string {
	s := err.Error()
	// keep the innermost message of nested MarshalJSON wrappers
	if i := strings.LastIndex(s, "MarshalJSON for type "); i >= 0 {
		s = s[i+len("MarshalJSON for type "):]
	}
	s = rxQuoted.ReplaceAllString(s, "_")
	if len(s) > 90 {
		s = s[:90]
	}
	return s
}

func nameClass(n string) string {
	switch {
	case n == "":
		return "empty"
	case strings.ContainsRune(n, '"'):
		return "has-quote"
	case strings.ContainsRune(n, '\\'):
		return "has-backslash"
	}
	for _, r := range n {
		if r < 0x20 || r == 0x7f {
			return "has-control"
		}
	}
	for _, r := range n {
		if r > unicode.MaxASCII {
			return "non-ascii"
		}
	}
	if strings.ContainsAny(n, "<>&") {
		return "html"
	}
	return "plain"
}

// keyword vocabulary per kind, to tell keywords from free names and unknown keywords
var kindKeywords = map[string]map[string]bool{}

func init() {
	add := func(kind string, kws ...string) {
		if kindKeywords[kind] == nil {
			kindKeywords[kind] = map[string]bool{}
		}
		for _, k := range kws {
			kindKeywords[kind][k] = true
		}
	}
	val := []string{"maximum", "exclusiveMaximum", "minimum", "exclusiveMinimum", "maxLength", "minLength", "pattern", "maxItems", "minItems", "uniqueItems", "enum", "multipleOf"}
	simple := []string{"type", "format", "items", "collectionFormat", "default", "nullable", "example"}
	add("swagger", "swagger", "info", "host", "basePath", "schemes", "consumes", "produces", "paths", "definitions", "parameters", "responses", "security", "securityDefinitions", "tags", "externalDocs", "id")
	add("info", "title", "version", "description", "termsOfService", "contact", "license")
	add("contact", "name", "url", "email")
	add("license", "name", "url")
	add("externalDocs", "description", "url")
	add("tag", "name", "description", "externalDocs")
	add("xml", "name", "namespace", "prefix", "attribute", "wrapped")
	add("pathItem", "$ref", "get", "put", "post", "delete", "options", "head", "patch", "parameters")
	add("operation", "tags", "summary", "description", "externalDocs", "operationId", "produces", "consumes", "parameters", "responses", "schemes", "deprecated", "security")
	add("response", "$ref", "description", "schema", "headers", "examples")
	add("header", append(append([]string{"description"}, val...), simple...)...)
	add("items", append(append([]string{"$ref"}, val...), simple...)...)
	add("parameter", append(append([]string{"$ref", "name", "in", "description", "required", "schema", "allowEmptyValue"}, val...), simple...)...)
	add("securityScheme", "type", "description", "name", "in", "flow", "authorizationUrl", "tokenUrl", "scopes")
	add("schema", append([]string{"$ref", "$schema", "id", "format", "title", "description", "default", "maxProperties", "minProperties", "required", "additionalProperties",
		"type", "items", "allOf", "anyOf", "oneOf", "not", "properties", "patternProperties", "dependencies", "additionalItems", "definitions", "discriminator",
		"readOnly", "xml", "externalDocs", "example", "nullable"}, val...)...)
}

// free-name containers: a member of these (kind, keyword) pairs is a user-chosen name
var nameContainers = map[string]bool{
	"swagger.definitions": true, "swagger.parameters": true, "swagger.responses": true, "swagger.securityDefinitions": true,
	"schema.properties": true, "schema.patternProperties": true, "schema.definitions": true, "schema.dependencies": true,
	"response.headers": true, "response.examples": true, "securityScheme.scopes": true,
}

// enclosing returns the kind of the deepest specification object containing path and the rest of the path below it.
func enclosing(kinds map[string]string, path []string) (string, []string) {
	// a difference on a whole specification object is named as a member of its parent
	start := len(path)
	if start > 0 {
		start--
	}
	for n := start; n >= 0; n-- {
		if k, ok := kinds[oracle.TokensToPointer(path[:n])]; ok {
			return k, path[n:]
		}
	}
	return "?", path
}

// memberClass names a member of a kind independently of user-chosen names.
func memberClass(kind string, rest []string) string {
	if len(rest) == 0 {
		return kind + "(whole)"
	}
	m := rest[0]
	lm := strings.ToLower(m)
	switch {
	case kind == "paths" && strings.HasPrefix(m, "/"):
		return "paths.<path:" + nameClass(m) + ">"
	case kind == "responses" && (m == "default"):
		return "responses.default"
	case kind == "responses" && !strings.HasPrefix(lm, "x-"):
		if len(m) > 1 && m[0] == '0' {
			return "responses.<code:leading-zero>"
		}
		return "responses.<code>"
	case strings.HasPrefix(lm, "x-"):
		s := kind + ".x-*"
		if len(rest) > 1 {
			s += "/payload"
		}
		return s
	case kindKeywords[kind][m]:
		s := kind + "." + m
		if nameContainers[s] && len(rest) > 1 {
			s += ".<name:" + nameClass(rest[1]) + ">"
			if len(rest) > 2 {
				s += "/..."
			}
		} else if len(rest) > 1 {
			s += "/..."
		}
		return s
	case kind == "schema":
		return "schema.<unknown-keyword:" + nameClass(m) + ">"
	}
	return kind + ".<undefined-member>"
}

// diffClass renders a diff item as a finding class.
func diffClass(kinds map[string]string, d oracle.DiffItem) string {
	kind, rest := enclosing(kinds, d.Path)
	mc := memberClass(kind, rest)
	vc := func(v interface{}) string {
		switch c := oracle.ValueClass(v); c {
		case "string", "number", "object", "array", "true":
			return ""
		default:
			return "(" + c + ")"
		}
	}
	switch d.Kind {
	case "lost":
		return fmt.Sprintf("lost %s%s", mc, vc(d.Before))
	case "added":
		return fmt.Sprintf("added %s%s", mc, vc(d.After))
	}
	return fmt.Sprintf("changed %s(%s->%s)", mc, oracle.ValueClass(d.Before), oracle.ValueClass(d.After))
}

// roundTrip decodes text into the model type of kind and encodes it again.
// stage is "", "decode-error", "decode-panic", "encode-error" or "encode-panic".
func roundTrip(kind string, text []byte) (out []byte, typed interface{}, stage string, detail string) {
	v := newTyped(kind)
	err, pan := guard(func() error { return json.Unmarshal(text, v) })
	if pan != "" {
		return nil, nil, "decode-panic", pan
	}
	if err != nil {
		return nil, nil, "decode-error", err.Error()
	}
	err, pan = guard(func() error {
		var e error
		out, e = json.Marshal(v)
		return e
	})
	if pan != "" {
		return nil, v, "encode-panic", pan
	}
	if err != nil {
		return nil, v, "encode-error", err.Error()
	}
	return out, v, "", ""
}
