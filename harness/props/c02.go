package props

import (
	"bytes"
	"encoding/json"
	"fmt"
	"math/rand"
	"net/url"
	"regexp"
	"strings"

	"github.com/go-openapi/spec"

	"verifharness/core"
	"verifharness/gen"
	"verifharness/oracle"
)

// C02 — expansion preserves meaning (bisimilar reference graphs).
// C03 — only resolvable cycle cut-points remain; acyclic => $ref-free and deterministic.
// Both monitors run on the same kind of executions (G-WORLD stratum A).

var (
	worldForms = []string{"fragment", "samefile", "rel", "dotrel", "rootrel", "abs"}
	worldDirs  = []string{"root", "same", "sub", "parent", "cousin", "http"}
)

func repetitions(env *core.Env) int {
	if env.Thorough() {
		return 8
	}
	return 3
}

func structuredWorlds(env *core.Env) int {
	k := 6
	if env.Thorough() {
		k = 40
	}
	return len(worldForms) * len(worldDirs) * k
}

func c02NumCases(env *core.Env) int {
	if env.Thorough() {
		return structuredWorlds(env) + 60000
	}
	return structuredWorlds(env) + 10000
}

// worldCase derives the world and options of case idx (shared by C02, C03, C08, C09).
func worldCase(env *core.Env, prop string, idx int) (*gen.World, gen.WorldOpts, *rand.Rand) {
	var rng *rand.Rand
	o := gen.WorldOpts{}
	ns := structuredWorlds(env)
	if idx < ns {
		per := ns / (len(worldForms) * len(worldDirs))
		cell := idx / per
		rng = core.Rng(0, prop+"/structured", idx) // the structured part does not depend on the seed
		o.Force = &gen.ForceSlot{Form: worldForms[cell%len(worldForms)], Dir: worldDirs[cell/len(worldForms)]}
		o.NDocs = 2 + rng.Intn(2)
		o.HTTP = o.Force.Dir == "http"
		o.Cyclic = rng.Intn(2) == 0
		o.Nested = rng.Intn(2) == 0
		o.Elements = 2
		o.MaxDepth = 1 + rng.Intn(2)
		o.RefDensity = 0.5
		o.Chains = rng.Intn(4) == 0
	} else {
		rng = core.Rng(env.Seed, prop, idx)
		o.Chains = rng.Intn(3) == 0
		o.NDocs = 1 + rng.Intn(5)
		o.Cyclic = rng.Intn(5) < 3
		o.Nested = rng.Intn(2) == 0
		o.Siblings = rng.Intn(3) == 0
		o.HostileNames = rng.Intn(3) == 0
		o.PrefixDocs = rng.Intn(5) == 0
		o.HTTP = rng.Intn(3) == 0
		o.WholeDoc = rng.Intn(8) == 0
		o.Elements = 1 + rng.Intn(3)
		o.MaxDepth = 1 + rng.Intn(3)
		o.RefDensity = []float64{0.25, 0.45, 0.7}[rng.Intn(3)]
	}
	w := gen.GenWorld(rng, o)
	if idx >= ns && idx%5 == 0 {
		// the same reference graph served from http locations: other ports, hosts and schemes with namesake paths
		w = gen.Relocate(w, gen.Layouts[(idx/5)%len(gen.Layouts)])
	}
	return w, o, rng
}

var rxDigits = regexp.MustCompile(`[0-9]+`)

func mismatchClass(m string) string {
	// "kind ptr...: reason (input.., output..)" -> kind + reason class
	kind := strings.SplitN(m, " ", 2)[0]
	reason := m
	if i := strings.Index(m, ": "); i >= 0 {
		reason = m[i+2:]
	}
	if i := strings.Index(reason, " (input "); i >= 0 {
		reason = reason[:i]
	}
	switch {
	case strings.HasPrefix(reason, "heads differ"):
		reason = "heads differ"
	case strings.HasPrefix(reason, "different sub-element positions"):
		reason = "different sub-element positions"
	}
	return kind + ": " + rxDigits.ReplaceAllString(reason, "N")
}

func countFeatures(res *core.CaseResult, w *gen.World) {
	for k, n := range w.Features {
		switch {
		case strings.HasPrefix(k, "ref."):
			parts := strings.Split(strings.TrimPrefix(k, "ref."), "|")
			if len(parts) == 3 {
				res.Count("pos."+parts[0], n)
				res.Count("form."+parts[1], n)
				res.Count("dir."+parts[2], n)
				res.Count("cell."+parts[1]+"|"+parts[2], n)
			}
		default:
			res.Count("feat."+k, n)
		}
	}
}

func worldNonTrivial(w *gen.World, acyclic bool) bool {
	return w.Features["cross-document-ref"] > 0 || !acyclic
}

func c02Total(env *core.Env) int { return c02NumCases(env) + c09TwinWorlds }

func c02Run(env *core.Env, idx int) core.CaseResult {
	var res core.CaseResult
	var w *gen.World
	var rng *rand.Rand
	if idx >= c02NumCases(env) {
		// the same relative $ref text written in documents of two directories
		w, rng = twinTextWorld(idx-c02NumCases(env)), core.Rng(0, "C02/twin", idx)
	} else {
		w, _, rng = worldCase(env, "C02", idx)
	}
	o := expandOpts{Absolute: rng.Intn(2) == 0, KeepResolutions: true}
	in := oworld(w)
	starts := oracle.SpecStarts(in, w.Root, true)
	acyclic := in.Acyclic(starts)
	refs, _ := in.Reachable(starts, false)
	allResolvable := true
	for _, r := range refs {
		if !r.Resolvable {
			allResolvable = false
		}
	}
	countFeatures(&res, w)
	res.Hash = core.HashOf(w.Docs)
	res.NonTrivial = worldNonTrivial(w, acyclic)
	if acyclic {
		res.Count("world.acyclic", 1)
	} else {
		res.Count("world.cyclic", 1)
	}
	res.Sample = map[string]interface{}{"documents": len(w.Docs), "ref_holders": w.Slots, "acyclic": acyclic, "options": o.String()}
	if !allResolvable {
		res.Inconcl = "generator produced an unresolvable reference in a fault-free world"
		return res
	}
	distinct := map[string]bool{}
	for rep := 0; rep < repetitions(env); rep++ {
		r := runExpandSpec(w, o)
		res.Evals++
		wit := worldWitness(w, o, map[string]interface{}{"resolutions": r.Res})
		switch {
		case r.Panic != "":
			res.Violate("panic: "+errClass(fmt.Errorf("%s", r.Panic)), r.Panic, wit)
			return res
		case r.Err != nil:
			res.Violate("spurious-error: "+errClass(r.Err), "every reachable $ref is resolvable, yet: "+r.Err.Error(), wit)
			return res
		}
		if r.OptionsChanged != "" {
			res.Violate("caller-options-modified", r.OptionsChanged, wit)
		}
		distinct[string(r.OutText)] = true
		mm, compared := monitorMeaning(in, w.Root, r.Out, true)
		res.Count("positions-compared", compared)
		seen := map[string]bool{}
		for _, m := range mm {
			cl := "not-bisimilar " + mismatchClass(m)
			if seen[cl] {
				continue
			}
			seen[cl] = true
			wit["output"] = r.Out
			res.Violate(cl, m, wit)
		}
		if len(mm) > 0 {
			break
		}
	}
	res.Count(fmt.Sprintf("distinct-outputs.%d", len(distinct)), 1)
	return res
}

func worldFloors(env *core.Env) []string {
	f := []string{"world.acyclic", "world.cyclic", "feat.cross-document-ref", "feat.nested-target", "feat.holder.schema", "feat.holder.parameter",
		"feat.holder.response", "feat.holder.pathItem", "positions-compared", "feat.layout.ports", "feat.layout.hosts", "feat.layout.schemes"}
	for _, p := range []string{"schema:properties", "schema:items", "schema:allOf", "schema:anyOf", "schema:oneOf", "schema:not", "schema:additionalProperties",
		"schema:patternProperties", "schema:dependencies", "schema:additionalItems", "schema:definitions", "schema:definition", "schema:parameter.schema",
		"schema:response.schema", "pathItem", "pathItem.parameters", "operation.parameters", "operation.responses"} {
		f = append(f, "pos."+p)
	}
	for _, form := range worldForms {
		f = append(f, "form."+form)
	}
	for _, d := range worldDirs {
		f = append(f, "dir."+d)
	}
	// the structured cells that can exist: fragment/samefile only within one document
	for _, d := range worldDirs {
		for _, form := range worldForms {
			same := d == "root"
			local := form == "fragment" || form == "samefile"
			if same != local && !(same && form == "abs") {
				continue
			}
			if d == "http" && form != "abs" {
				continue
			}
			f = append(f, "cell."+form+"|"+d)
		}
	}
	return f
}

// ---------------------------------------------------------------- C03

// denormBases / denormTargets: the pure rewriting of a kept $ref relative to the root document (hook H5), enumerated.
var denormBases = []string{"file:///w/a/root.json", "file:///root.json", "file:///w/a/b/c/root.json", "http://h.example/d/root.json", "https://s.example:8443/x/root.json",
	"file:///w/a/root.json2", "file:///w/sp%20ace/root.json"}

func denormTargets(base string) []string {
	var out []string
	for _, p := range []string{"/w/a/root.json", "/w/a/x.json", "/w/a/root.json2", "/w/a/root", "/w/a/s/x.json", "/w/x.json", "/x.json", "/w/b/c/x.json", "/w/a/b/c/root.json", "/w/a/b/x.json",
		"/w/sp%20ace/root.json", "/w/sp%20ace/x.json", "/w/a/é.json", "/root.json", "/w/a/b/c/d/e.json", "/x/root.json", "/d/root.json", "/d/e/f.json"} {
		for _, host := range []string{"file://", "http://h.example", "https://s.example:8443", "http://other.example"} {
			for _, frag := range []string{"#/definitions/d0", "#/definitions/a~1b/properties/c%20d", ""} {
				out = append(out, host+p+frag)
			}
		}
	}
	return out
}

const c03DenormCases = 7 // one per base

func c03Denorm(env *core.Env, k int) core.CaseResult {
	var res core.CaseResult
	base := denormBases[k]
	res.Hash = "denormalize/" + base
	res.NonTrivial = true
	bu, _ := oracle.RefTarget(base, "")
	n := 0
	for _, t := range denormTargets(base) {
		want, err := oracle.RefTarget(base, t)
		if err != nil {
			continue
		}
		// the residual of the prefix rule pinned by the package's own test: a document *below* the root document's path
		if strings.HasPrefix(want.Doc, bu.Doc+"/") {
			continue
		}
		ref, err := spec.NewRef(t)
		if err != nil {
			continue
		}
		var got spec.Ref
		_, pan := guard(func() error { got = spec.VerifDenormalizeRef(&ref, base, ""); return nil })
		res.Evals++
		n++
		wit := map[string]interface{}{"root_location": base, "absolute_ref": t, "rewritten": got.String()}
		if pan != "" {
			res.Violate("denormalizeRef-panic", pan, wit)
			continue
		}
		back, err := oracle.RefTarget(base, got.String())
		if err != nil || !oracle.SameURL(back.Doc, want.Doc) || back.Ptr != want.Ptr {
			res.Violate("rewritten-ref-designates-another-target", fmt.Sprintf("%q rewritten relative to %q is %q, which designates %s instead of %s", t, base, got.String(), back, want), wit)
			continue
		}
		if want.Doc == bu.Doc && want.Ptr != "" && !isFragmentOnly(got.String()) {
			res.Violate("rewritten-ref-into-root-not-fragment-only", fmt.Sprintf("%q relative to %q is %q", t, base, got.String()), wit)
		}
	}
	res.Count("denormalize-pairs", n)
	res.Sample = map[string]interface{}{"root_location": base, "pairs": n}
	return res
}

// hasRef reports a "$ref" member anywhere in v.
func hasRef(v interface{}) string {
	switch x := v.(type) {
	case map[string]interface{}:
		if r, ok := x["$ref"].(string); ok {
			return r
		}
		for _, w := range x {
			if r := hasRef(w); r != "" {
				return r
			}
		}
	case []interface{}:
		for _, w := range x {
			if r := hasRef(w); r != "" {
				return r
			}
		}
	}
	return ""
}

// c03WholeBaseDocument: a schema that is not the document at the base location but refers to that whole document by name (directly,
// below a keyword, or through another document). Nothing here is cyclic: no $ref may remain, with or without AbsoluteCircularRef.
func c03WholeBaseDocument(k int, res *core.CaseResult) {
	const base = "file:///w/schemas/item.json"
	docs := map[string]string{
		base:                               `{"title":"item","type":"object","properties":{"p":{"title":"p of item","type":"string"}}}`,
		"file:///w/schemas/sub/other.json": `{"definitions":{"viaParent":{"$ref":"../item.json"},"wrapped":{"title":"wrapped","allOf":[{"$ref":"../item.json"}]}}}`,
	}
	text := []string{`{"$ref":"item.json"}`, `{"title":"outer","properties":{"a":{"$ref":"item.json"},"b":{"$ref":"item.json"}}}`, `{"$ref":"sub/other.json#/definitions/viaParent"}`,
		`{"title":"outer","items":{"$ref":"sub/other.json#/definitions/wrapped"}}`, `{"title":"outer","allOf":[{"$ref":"file:///w/schemas/item.json"}]}`, `{"$ref":"./item.json#"}`}[k%6]
	abs := k/6 == 1
	loader := func(u string) (json.RawMessage, error) {
		if d, ok := docs[u]; ok {
			return json.RawMessage(d), nil
		}
		return nil, fmt.Errorf("no document at %s", u)
	}
	s := new(spec.Schema)
	_ = json.Unmarshal([]byte(text), s)
	err, pan := guard(func() error {
		return spec.ExpandSchemaWithBasePath(s, nil, &spec.ExpandOptions{RelativeBase: base, PathLoader: loader, AbsoluteCircularRef: abs})
	})
	res.Evals++
	res.Count("whole-base-document-referenced-by-name", 1)
	out, _ := oracle.Norm(s)
	wit := map[string]interface{}{"entry": "ExpandSchemaWithBasePath", "base": base, "documents": docs, "schema": json.RawMessage(text), "absolute_circular_ref": abs, "output": out}
	switch {
	case pan != "" || err != nil:
		res.Violate("whole-base-document: expansion fails", fmt.Sprintf("%v %s", err, pan), wit)
	case hasRef(out) != "":
		res.Violate("ref-left-in-acyclic-world (schema referring to the whole base document)", fmt.Sprintf("$ref %q remains in %s", hasRef(out), core.Abbrev(oracle.Text(out), 300)), wit)
	case !strings.Contains(oracle.Text(out), "p of item"):
		res.Violate("whole-base-document: content of the base document missing", core.Abbrev(oracle.Text(out), 300), wit)
	}
}

// c03NoBase: whole-spec expansion of a single, self-contained document without any base location. The cut-points are absolute URLs
// when the option asks for them (the pseudo location the package gives the root), fragment-only otherwise - as with a base.
func c03NoBase(env *core.Env, idx int, res *core.CaseResult) {
	rng := core.Rng(env.Seed, "C03/no-base", idx)
	w := gen.GenWorld(rng, gen.WorldOpts{NDocs: 1, FragmentOnly: true, Cyclic: true, Nested: rng.Intn(2) == 0, Elements: 2 + rng.Intn(2), MaxDepth: 1 + rng.Intn(2), RefDensity: 0.6})
	in := oworld(w)
	if in.Acyclic(oracle.SpecStarts(in, w.Root, true)) {
		return
	}
	text, _ := json.Marshal(w.Docs[w.Root])
	for _, abs := range []bool{true, false} {
		sw := new(spec.Swagger)
		_ = json.Unmarshal(text, sw)
		err, pan := guard(func() error {
			return spec.ExpandSpec(sw, &spec.ExpandOptions{AbsoluteCircularRef: abs, PathLoader: func(u string) (json.RawMessage, error) { return nil, fmt.Errorf("nothing to load: %s", u) }})
		})
		res.Evals++
		if pan != "" || err != nil {
			res.Count("expansion-failed", 1)
			continue
		}
		res.Count("no-base-location", 1)
		out, _ := oracle.Norm(sw)
		b, _ := json.Marshal(out)
		var plain interface{}
		_ = json.Unmarshal(b, &plain)
		wit := map[string]interface{}{"entry": "ExpandSpec without RelativeBase", "document": w.Docs[w.Root], "absolute_circular_ref": abs, "output": plain}
		var walk func(v interface{}, ptr string)
		walk = func(v interface{}, ptr string) {
			switch x := v.(type) {
			case map[string]interface{}:
				if r, ok := x["$ref"].(string); ok {
					res.Count("kept-refs(no-base)", 1)
					u, perr := url.Parse(r)
					switch {
					case perr != nil:
						res.Violate("kept-ref-unparsable (no base)", r, wit)
					case abs && (u.Scheme == "" || !strings.HasPrefix(u.Path, "/")):
						res.Violate("kept-ref-not-absolute (no base location)", fmt.Sprintf("%s holds $ref %q with AbsoluteCircularRef", ptr, r), wit)
					case !abs && !strings.HasPrefix(r, "#"):
						res.Violate("kept-ref-into-root-not-fragment-only (no base location)", fmt.Sprintf("%s holds $ref %q", ptr, r), wit)
					default:
						frag := "/" + strings.TrimPrefix(u.EscapedFragment(), "/")
						if dec, derr := url.PathUnescape(frag); derr == nil {
							st := oracle.State{Doc: w.Root, Ptr: dec}
							if _, ok := in.Lookup(st); !ok {
								res.Violate("kept-ref-unresolvable (no base location)", fmt.Sprintf("%s holds $ref %q", ptr, r), wit)
							}
						}
					}
					return
				}
				for k, c := range x {
					walk(c, ptr+"/"+oracle.EscapeToken(k))
				}
			case []interface{}:
				for i, c := range x {
					walk(c, fmt.Sprintf("%s/%d", ptr, i))
				}
			}
		}
		for _, sec := range []string{"definitions", "parameters", "responses", "paths"} {
			if m, ok := plain.(map[string]interface{}); ok {
				walk(m[sec], "/"+sec)
			}
		}
	}
}

func c03NumCases(env *core.Env) int { return c02NumCases(env) + c09TwinWorlds + c03DenormCases }

func c03Run(env *core.Env, idx int) core.CaseResult {
	var res core.CaseResult
	if idx >= c02NumCases(env)+c09TwinWorlds {
		return c03Denorm(env, idx-c02NumCases(env)-c09TwinWorlds)
	}
	var w *gen.World
	var rng *rand.Rand
	if idx >= c02NumCases(env) {
		// constructed worlds: same text in two directories, same-text chains, long chains
		w, rng = twinTextWorld(idx-c02NumCases(env)), core.Rng(0, "C03/constructed", idx)
	} else {
		w, _, rng = worldCase(env, "C03", idx)
	}
	o := expandOpts{Absolute: rng.Intn(2) == 0}
	in := oworld(w)
	starts := oracle.SpecStarts(in, w.Root, true)
	acyclic := in.Acyclic(starts)
	if idx < 12 {
		c03WholeBaseDocument(idx, &res)
	}
	if idx%8 == 0 {
		c03NoBase(env, idx, &res)
	}
	countFeatures(&res, w)
	res.Hash = core.HashOf(w.Docs)
	res.NonTrivial = !acyclic || w.Slots >= 3
	if acyclic {
		res.Count("world.acyclic", 1)
	} else {
		res.Count("world.cyclic", 1)
	}
	res.Sample = map[string]interface{}{"documents": len(w.Docs), "ref_holders": w.Slots, "acyclic": acyclic, "options": o.String()}
	var first []byte
	for rep := 0; rep < repetitions(env); rep++ {
		r := runExpandSpec(w, o)
		res.Evals++
		wit := worldWitness(w, o, nil)
		if r.OptionsChanged != "" {
			res.Violate("caller-options-modified", r.OptionsChanged, wit)
		}
		if r.Panic != "" || r.Err != nil {
			// C02/C08 own spurious errors; nothing to inspect here
			res.Count("expansion-failed", 1)
			return res
		}
		wit["output"] = r.Out
		if acyclic {
			if first == nil {
				first = r.OutText
			} else if !bytes.Equal(first, r.OutText) {
				res.Violate("acyclic-output-nondeterministic", "two expansions of the same acyclic world differ in bytes", wit)
				return res
			}
		}
		kept := keptRefs(in, w.Root, r.Out)
		res.Count("kept-refs", len(kept))
		for _, k := range kept {
			res.Count("kept."+k.Kind, 1)
			where := k.Kind + " under " + holderClass(k.Holder.Ptr)
			switch {
			case acyclic:
				res.Violate("ref-left-in-acyclic-world ("+where+")", fmt.Sprintf("%s holds $ref %q", k.Holder.Ptr, k.Text), wit)
			case !k.Resolvable:
				res.Violate("kept-ref-unresolvable ("+where+")", fmt.Sprintf("%s holds $ref %q which designates nothing from %s", k.Holder.Ptr, k.Text, w.Root), wit)
			case !k.OnInputCycle:
				res.Violate("kept-ref-not-on-cycle ("+where+")", fmt.Sprintf("%s holds $ref %q -> %s which is not on a reference cycle of the input", k.Holder.Ptr, k.Text, k.Target), wit)
			}
			// surface form
			if o.Absolute {
				t, err := oracle.RefTarget("file:///nowhere/else.json", k.Text)
				if err != nil || !oracle.SameURL(t.Doc, k.Target.Doc) {
					res.Violate("kept-ref-not-absolute", fmt.Sprintf("%s holds $ref %q with AbsoluteCircularRef", k.Holder.Ptr, k.Text), wit)
				}
				res.Count("kept.absolute-form", 1)
			} else {
				if k.IntoRoot && !isFragmentOnly(k.Text) && k.Text != "" {
					res.Violate("kept-ref-into-root-not-fragment-only", fmt.Sprintf("%s holds $ref %q", k.Holder.Ptr, k.Text), wit)
				}
				if k.IntoRoot {
					res.Count("kept.into-root", 1)
				} else {
					res.Count("kept.into-other-document", 1)
				}
			}
		}
	}
	return res
}

func init() {
	core.Register(&core.Property{
		ID:    "C02",
		Level: "exploration",
		Rule: "G-WORLD: 1-5 documents in different directories/hosts, colliding element names, unique marker per node; structured part = one world per ($ref form x directory relation) cell x k; random part = seeded worlds " +
			"(cycles, nested targets, $ref siblings, escaped names, prefix-named documents, whole-document refs; every fifth one relocated to http locations with the cousin directory at the namesake path on another port, host or scheme); each world expanded R times (map order) with AbsoluteCircularRef on/off; " +
			"monitor = bisimulation (O-DEN) of every definition/parameter/response/path item between input world and input-with-root-replaced-by-output. non-trivial = cross-document $ref or cycle; distinct by world content",
		NumCases: c02Total,
		Run:      c02Run,
		Floors:   worldFloors,
		Assumptions: []string{"no id keyword, no $ref siblings on non-schema holders; parameter/response/path-item chains across documents (open finding F8) are exercised separately (stratum B)",
			"reference resolution oracle = net/url.ResolveReference, pointer oracle = own RFC 6901 evaluator"},
	})
	core.Register(&core.Property{
		ID:    "C03",
		Level: "exploration",
		Rule: "same worlds as C02; monitor = every $ref left at a schema/parameter/response/path-item position resolves from the root location to a node on an input reference cycle (O-CYC); none in acyclic worlds, " +
			"acyclic outputs byte-identical over R runs; surface form absolute / fragment-only as the option demands; plus the pure rewriting of kept $refs (hook H5 denormalizeRef) over an enumerated set of " +
			"root locations x absolute targets: the rewritten text must designate the same target from the root location; plus ExpandSchemaWithBasePath of schemas that refer to the whole document at the base location by name " +
			"(nothing may remain), and ExpandSpec of self-contained cyclic documents without any base location (cut-points absolute with the option, fragment-only without). non-trivial = world has a cycle or >= 3 $refs",
		NumCases: c03NumCases,
		Run:      c03Run,
		Floors: func(env *core.Env) []string {
			return append(worldFloors(env)[:8], "kept-refs", "kept.absolute-form", "kept.into-root", "kept.into-other-document", "world.acyclic", "world.cyclic", "denormalize-pairs", "whole-base-document-referenced-by-name", "no-base-location", "kept-refs(no-base)", "feat.layout.ports", "feat.layout.hosts", "feat.layout.schemes")
		},
		Assumptions: []string{"surface form is checked in the weak reading: fragment-only is required for targets inside the root document, other targets may be relative or absolute"},
	})
}
