package props

import (
	"encoding/json"
	"fmt"
	"sort"
	"strings"

	"github.com/go-openapi/spec"

	"verifharness/gen"
	"verifharness/oracle"
)

// ---------------------------------------------------------------- hook plumbing (single-threaded workers)

type stepBudgetExceeded struct{ steps int }

type hookCollector struct {
	steps       int
	budget      int // 0 = unlimited
	maxDepth    int
	dupOnPath   string
	resolutions []resolution
	keepRes     bool
}

type resolution struct {
	Ref      string `json:"ref"`
	Base     string `json:"base"`
	FromRoot bool   `json:"from_in_memory_root"`
}

var curHooks *hookCollector

func installHooks() {
	spec.VerifHooks.Step = func(site string, parentRefs []string, ref, basePath string) {
		h := curHooks
		if h == nil {
			return
		}
		h.steps++
		if len(parentRefs) > h.maxDepth {
			h.maxDepth = len(parentRefs)
		}
		if site == "follow" || site == "hop" {
			for _, p := range parentRefs {
				if p == ref && h.dupOnPath == "" {
					h.dupOnPath = ref
				}
			}
		}
		if h.budget > 0 && h.steps > h.budget {
			panic(stepBudgetExceeded{h.steps})
		}
	}
	spec.VerifHooks.Resolved = func(ref, basePath string, usedRoot bool, res interface{}) {
		h := curHooks
		if h == nil || !h.keepRes || len(h.resolutions) >= 64 {
			return
		}
		h.resolutions = append(h.resolutions, resolution{ref, basePath, usedRoot})
	}
}

func init() { installHooks() }

// ---------------------------------------------------------------- running the real expander on a world

type loaderLog struct {
	requests []string
	refuse   map[string]bool
	docs     map[string][]byte
}

func newLoader(w *gen.World) *loaderLog {
	l := &loaderLog{docs: map[string][]byte{}, refuse: map[string]bool{}}
	for u, d := range w.Docs {
		b, _ := json.Marshal(d)
		l.docs[u] = b
	}
	return l
}

func (l *loaderLog) load(u string) (json.RawMessage, error) {
	l.requests = append(l.requests, u)
	if l.refuse[u] {
		return nil, fmt.Errorf("loader refuses %s", u)
	}
	b, ok := l.docs[u]
	if !ok {
		return nil, fmt.Errorf("no document at %s", u)
	}
	return json.RawMessage(append([]byte{}, b...)), nil
}

type expandResult struct {
	Err      error
	Panic    string
	Budget   bool
	OutText  []byte
	Out      interface{}
	// OptionsChanged is non-empty when the option structure handed to the call (reused from call to call, as a caller may) came back different.
	OptionsChanged string
	Requests       []string
	Steps    int
	MaxDepth int
	DupRef   string
	Res      []resolution
}

var reusedOptions = map[string]*spec.ExpandOptions{}

type expandOpts struct {
	Skip, Continue, Absolute bool
	Budget                   int
	Refuse                   map[string]bool
	KeepResolutions          bool
	Cache                    spec.ResolutionCache // not used by ExpandSpec
}

func (o expandOpts) String() string {
	return fmt.Sprintf("skip=%v continue=%v absolute=%v", o.Skip, o.Continue, o.Absolute)
}

// runExpandSpec decodes the root of the world and runs ExpandSpec on it.
func runExpandSpec(w *gen.World, o expandOpts) expandResult {
	var r expandResult
	ld := newLoader(w)
	if o.Refuse != nil {
		ld.refuse = o.Refuse
	}
	sw := new(spec.Swagger)
	if err := json.Unmarshal(ld.docs[w.Root], sw); err != nil {
		r.Err = fmt.Errorf("root does not decode: %w", err)
		return r
	}
	h := &hookCollector{budget: o.Budget, keepRes: o.KeepResolutions}
	curHooks = h
	func() {
		defer func() {
			if rec := recover(); rec != nil {
				if _, ok := rec.(stepBudgetExceeded); ok {
					r.Budget = true
					return
				}
				r.Panic = fmt.Sprint(rec)
			}
		}()
		// the caller keeps one option structure per (location, flags) and reuses it, only pointing the loader at the current documents
		key := fmt.Sprintf("%s|%v|%v|%v", w.Root, o.Skip, o.Continue, o.Absolute)
		opts := reusedOptions[key]
		if opts == nil {
			opts = &spec.ExpandOptions{RelativeBase: w.Root, SkipSchemas: o.Skip, ContinueOnError: o.Continue, AbsoluteCircularRef: o.Absolute}
			reusedOptions[key] = opts
		}
		opts.PathLoader = ld.load
		snap := snapOpts(opts) // every field, unexported ones included
		defer func() {
			if opts.RelativeBase != w.Root || opts.SkipSchemas != o.Skip || opts.ContinueOnError != o.Continue || opts.AbsoluteCircularRef != o.Absolute {
				r.OptionsChanged = fmt.Sprintf("RelativeBase %q -> %q (skip=%v continue=%v absolute=%v)", w.Root, opts.RelativeBase, opts.SkipSchemas, opts.ContinueOnError, opts.AbsoluteCircularRef)
				delete(reusedOptions, key)
			} else if after := snapOpts(opts); after != snap {
				r.OptionsChanged = fmt.Sprintf("%s -> %s", snap, after)
				delete(reusedOptions, key)
			}
		}()
		r.Err = spec.ExpandSpec(sw, opts)
	}()
	curHooks = nil
	r.Requests, r.Steps, r.MaxDepth, r.DupRef, r.Res = ld.requests, h.steps, h.maxDepth, h.dupOnPath, h.resolutions
	if r.Panic != "" || r.Budget {
		return r
	}
	b, err := json.Marshal(sw)
	if err != nil {
		r.Panic = "result does not encode: " + err.Error()
		return r
	}
	r.OutText = b
	_ = json.Unmarshal(b, &r.Out)
	return r
}

// oworld turns a generated world into the oracle's view (documents re-parsed so that nothing is shared).
func oworld(w *gen.World) *oracle.OWorld {
	ow := &oracle.OWorld{Docs: map[string]interface{}{}}
	for u, d := range w.Docs {
		b, _ := json.Marshal(d)
		var v interface{}
		_ = json.Unmarshal(b, &v)
		ow.Docs[u] = v
	}
	return ow
}

// withRoot returns the world in which the root document is replaced (the consumer's view of an expansion result).
func withRoot(in *oracle.OWorld, root string, out interface{}) *oracle.OWorld {
	ow := &oracle.OWorld{Docs: map[string]interface{}{}}
	for u, d := range in.Docs {
		ow.Docs[u] = d
	}
	ow.Docs[root] = out
	return ow
}

func worldWitness(w *gen.World, o expandOpts, extra map[string]interface{}) map[string]interface{} {
	docs := map[string]interface{}{}
	for u, d := range w.Docs {
		docs[u] = d
	}
	m := map[string]interface{}{"root": w.Root, "documents": docs, "options": o.String(), "entry": "ExpandSpec"}
	for k, v := range extra {
		m[k] = v
	}
	return m
}

// ---------------------------------------------------------------- monitors shared by C02, C03, C08, C09, C10

// monitorMeaning is the C02 monitor: every spec position of the output is bisimilar to the same position of the input.
// wildcard lists input holder states whose denotation is left open (unresolvable non-schema holders under ContinueOnError).
func monitorMeaning(in *oracle.OWorld, root string, out interface{}, withDefinitions bool) (mismatches []string, compared int) {
	outW := withRoot(in, root, out)
	for _, st := range oracle.SpecStarts(in, root, withDefinitions) {
		compared++
		if m := oracle.Bisimilar(in, st.St, outW, st.St, st.Kind); m != nil {
			mismatches = append(mismatches, fmt.Sprintf("%s %s%s: %s (input %s, output %s)", st.Kind, st.St.Ptr, m.Path, m.Reason, m.A, m.B))
		}
	}
	return
}

// keptRef is a $ref found in an expansion result.
type keptRef struct {
	oracle.RefInfo
	OnInputCycle bool
	IntoRoot     bool
}

func keptRefs(in *oracle.OWorld, root string, out interface{}) []keptRef {
	outW := withRoot(in, root, out)
	var res []keptRef
	for _, ri := range oracle.AllRefs(outW, oracle.SpecStarts(outW, root, true)) {
		k := keptRef{RefInfo: ri}
		k.IntoRoot = ri.Target.Doc == root
		if ri.Resolvable {
			k.OnInputCycle = in.OnCycle(ri.Target, ri.Kind)
		}
		res = append(res, k)
	}
	return res
}

func holderClass(ptr string) string {
	toks, _ := oracle.PointerTokens(ptr)
	if len(toks) == 0 {
		return "root"
	}
	return toks[0]
}

func sortedStrings(m map[string]bool) []string {
	var out []string
	for k := range m {
		out = append(out, k)
	}
	sort.Strings(out)
	return out
}

func isFragmentOnly(ref string) bool { return strings.HasPrefix(ref, "#") }
