package props

import (
	"bufio"
	"bytes"
	"encoding/json"
	"fmt"
	"os"
	"os/exec"
	"path/filepath"
	"strings"

	"github.com/go-openapi/spec"

	"verifharness/core"
	"verifharness/gen"
)

// C19 — round trip and expansion keep a valid Swagger 2.0 document valid.
// O-VALID = python jsonschema Draft4Validator over the pinned Swagger 2.0 schema, fed with documents the worker recorded.

const c19Batch = 30

func c19NumCases(env *core.Env) int {
	if env.Thorough() {
		return 1400
	}
	return 300
}

type c19Verdict struct {
	ID        string `json:"id"`
	Stage     string `json:"stage"`
	Valid     bool   `json:"valid"`
	Where     string `json:"where"`
	Validator string `json:"validator"`
	Message   string `json:"message"`
	Detail    string `json:"detail"`
	Path      string `json:"path"`
}

const c19Root = "file:///c19/a/root.json"

// respell writes the same JSON text the way other producers do: 1 = white space around ':' and after ',' (pretty printers),
// 2 = every '$' inside strings written as the escape \u0024 (encoders that escape non-alphanumerics). The value is unchanged.
func respell(text []byte, mode int) []byte {
	if mode == 0 {
		return text
	}
	var out []byte
	inStr, esc := false, false
	for _, c := range text {
		switch {
		case inStr && esc:
			esc = false
			out = append(out, c)
		case inStr && c == '\\':
			esc = true
			out = append(out, c)
		case inStr && c == '"':
			inStr = false
			out = append(out, c)
		case inStr && c == '$' && mode == 2:
			out = append(out, []byte(`\u0024`)...)
		case inStr:
			out = append(out, c)
		case c == '"':
			inStr = true
			out = append(out, c)
		case c == ':' && mode == 1:
			out = append(out, ' ', ':', ' ')
		case c == ',' && mode == 1:
			out = append(out, ',', '\n', ' ')
		default:
			out = append(out, c)
		}
	}
	return out
}

func c19Run(env *core.Env, idx int) core.CaseResult {
	var res core.CaseResult
	rng := core.Rng(env.Seed, "C19", idx)
	dir := env.Workdir
	if dir == "" {
		dir = os.TempDir()
	}
	inPath := filepath.Join(dir, fmt.Sprintf("c19-%d-%d.in.jsonl", os.Getpid(), idx))
	outPath := filepath.Join(dir, fmt.Sprintf("c19-%d-%d.out.jsonl", os.Getpid(), idx))
	defer os.Remove(inPath)
	defer os.Remove(outPath)
	f, err := os.Create(inPath)
	if err != nil {
		res.Inconcl = err.Error()
		return res
	}
	bw := bufio.NewWriter(f)
	enc := json.NewEncoder(bw)
	type rec struct {
		doc      map[string]interface{}
		text     []byte
		nontriv  bool
		expanded bool
		features map[string]int
	}
	recs := map[string]*rec{}
	used := new(spec.Swagger) // one value that every document of the batch is decoded into, one after the other
	encodeErr := map[string]string{}
	sibling, _ := json.Marshal(gen.SiblingDoc())
	for k := 0; k < c19Batch; k++ {
		g := gen.NewDocGen(rng)
		g.Valid, g.Refs = true, true
		g.EmptyRequired = rng.Intn(3) == 0
		g.Density = []float64{0.8, 1.3, 1.8}[rng.Intn(3)]
		g.MaxDepth = 2 + rng.Intn(3)
		doc := g.Swagger(nil)
		text, _ := json.Marshal(doc)
		text = respell(text, k%3) // the document as a pretty printer or an escaping encoder would have written it
		res.Count(fmt.Sprintf("input-spelling.%d", k%3), 1)
		id := fmt.Sprintf("d%d", k)
		r := &rec{doc: doc, text: text, features: g.Cells}
		hasOp := g.Cells["pathItem.get"]+g.Cells["pathItem.put"]+g.Cells["pathItem.post"]+g.Cells["pathItem.delete"]+g.Cells["pathItem.options"]+g.Cells["pathItem.head"]+g.Cells["pathItem.patch"] > 0
		r.nontriv = hasOp && (g.Cells["swagger.securityDefinitions"] > 0 || g.Cells["schema.$ref"]+g.Cells["parameter.$ref"]+g.Cells["response.$ref"] > 0 || g.Cells["response.headers"] > 0)
		recs[id] = r
		_ = enc.Encode(map[string]interface{}{"id": id, "stage": "in", "doc": doc})
		// round trip
		sw := new(spec.Swagger)
		err, pan := guard(func() error { return json.Unmarshal(text, sw) })
		if err != nil || pan != "" {
			res.Count("undecodable", 1)
			continue
		}
		rt, err := json.Marshal(sw)
		if err != nil {
			res.Count("unencodable", 1)
			encodeErr[id] = err.Error()
			continue
		}
		// the same document decoded into a value that has held another document before
		if err, pan := guard(func() error { return json.Unmarshal(text, used) }); err == nil && pan == "" {
			if ru, err := json.Marshal(used); err == nil {
				_ = enc.Encode(map[string]interface{}{"id": id, "stage": "roundtrip-into-a-used-value", "doc": json.RawMessage(ru)})
			}
		}
		res.Evals++
		_ = enc.Encode(map[string]interface{}{"id": id, "stage": "roundtrip", "doc": json.RawMessage(rt)})
		// expansion (the sibling document is served by the loader)
		loader := func(u string) (json.RawMessage, error) {
			switch u {
			case "file:///c19/a/other.json":
				return json.RawMessage(sibling), nil
			case c19Root:
				return json.RawMessage(text), nil
			}
			return nil, fmt.Errorf("no document at %s", u)
		}
		sw2 := new(spec.Swagger)
		_ = json.Unmarshal(text, sw2)
		err, pan = guard(func() error { return spec.ExpandSpec(sw2, &spec.ExpandOptions{RelativeBase: c19Root, PathLoader: loader}) })
		res.Evals++
		if err != nil || pan != "" {
			res.Count("expansion-not-successful", 1)
			continue
		}
		ex, err := json.Marshal(sw2)
		if err != nil {
			continue
		}
		r.expanded = true
		_ = enc.Encode(map[string]interface{}{"id": id, "stage": "expanded", "doc": json.RawMessage(ex)})
		// one more expansion per document under other options: a successful expansion is one whatever the options
		oname := []string{"skip-schemas", "absolute-circular-ref", "continue-on-error", "skip-schemas+absolute-circular-ref"}[k%4]
		sw3 := new(spec.Swagger)
		_ = json.Unmarshal(text, sw3)
		o3 := &spec.ExpandOptions{RelativeBase: c19Root, PathLoader: loader, SkipSchemas: k%4 == 0 || k%4 == 3, AbsoluteCircularRef: k%4 == 1 || k%4 == 3, ContinueOnError: k%4 == 2}
		err, pan = guard(func() error { return spec.ExpandSpec(sw3, o3) })
		res.Evals++
		if err != nil || pan != "" {
			res.Count("expansion-not-successful("+oname+")", 1)
			continue
		}
		if ex3, err := json.Marshal(sw3); err == nil {
			_ = enc.Encode(map[string]interface{}{"id": id, "stage": "expanded(" + oname + ")", "doc": json.RawMessage(ex3)})
		}
	}
	_ = bw.Flush()
	f.Close()
	cmd := exec.Command("python3-vt", filepath.Join(verifRootDir(), "py", "validate.py"), inPath, outPath)
	var stderr bytes.Buffer
	cmd.Stderr = &stderr
	core.WaitingForChild.Add(1)
	err = cmd.Run()
	core.WaitingForChild.Add(-1)
	if err != nil {
		res.Inconcl = "validator failed: " + err.Error() + " " + core.Abbrev(stderr.String(), 300)
		return res
	}
	ob, err := os.ReadFile(outPath)
	if err != nil {
		res.Inconcl = err.Error()
		return res
	}
	verdicts := map[string]map[string]c19Verdict{}
	for _, line := range strings.Split(string(ob), "\n") {
		if strings.TrimSpace(line) == "" {
			continue
		}
		var v c19Verdict
		if json.Unmarshal([]byte(line), &v) != nil {
			continue
		}
		if verdicts[v.ID] == nil {
			verdicts[v.ID] = map[string]c19Verdict{}
		}
		verdicts[v.ID][v.Stage] = v
	}
	var hashes [][]byte
	nontriv := 0
	for id, r := range recs {
		vin, ok := verdicts[id]["in"]
		if !ok {
			continue
		}
		if !vin.Valid {
			res.Count("generated-invalid(discarded)", 1)
			res.Count("discard-reason."+vin.Where+" "+vin.Message, 1)
			continue
		}
		res.Count("valid-inputs", 1)
		hashes = append(hashes, r.text)
		if r.nontriv {
			nontriv++
		}
		for c, n := range r.features {
			if strings.HasPrefix(c, "securityScheme.") || strings.HasPrefix(c, "parameter.in") || c == "response.headers" || c == "schema.$ref" || c == "parameter.$ref" || c == "response.$ref" || c == "pathItem.$ref" {
				res.Count("feature."+c, n)
			}
		}
		if e, bad := encodeErr[id]; bad {
			res.Violate("valid document cannot be encoded again: "+errClass(fmt.Errorf("%s", e)), e, map[string]interface{}{"input": json.RawMessage(r.text)})
		}
		for _, stage := range []string{"roundtrip", "roundtrip-into-a-used-value", "expanded", "expanded(skip-schemas)", "expanded(absolute-circular-ref)", "expanded(continue-on-error)", "expanded(skip-schemas+absolute-circular-ref)"} {
			v, ok := verdicts[id][stage]
			if !ok {
				continue
			}
			res.Count("validated."+stage, 1)
			if v.Valid {
				continue
			}
			wit := map[string]interface{}{"input": json.RawMessage(r.text), "stage": stage, "validator_error": v.Detail, "at": v.Path}
			res.Violate(fmt.Sprintf("invalid-after-%s %s (%s: %s)", stage, v.Where, v.Validator, v.Message), fmt.Sprintf("at %s: %s", v.Path, v.Detail), wit)
		}
	}
	res.Hash = core.HashBytes(hashes...)
	res.NonTrivial = nontriv > 0
	res.Count("nontrivial-documents", nontriv)
	res.Sample = map[string]interface{}{"batch": c19Batch, "valid_inputs": res.Cover["valid-inputs"]}
	return res
}

func init() {
	core.Register(&core.Property{
		ID:    "C19",
		Level: "exploration",
		Rule: "G-DOC in schema-valid mode (every security-scheme flavour, parameter location, simple/body schema form, response/header form, local $refs to definitions/parameters/responses and $refs into a sibling document incl. an imported path item, " +
			"required-but-empty members); case = batch of 30 documents; each document, its re-encoding after decode and the result of a successful ExpandSpec are recorded and validated by python jsonschema (Draft4Validator, pinned Swagger 2.0 schema); " +
			"documents the validator rejects as generated are discarded and counted. non-trivial = document has an operation and a security definition, $ref or header; distinct by batch content",
		NumCases: c19NumCases,
		Run:      c19Run,
		Floors: func(env *core.Env) []string {
			return []string{"valid-inputs", "validated.roundtrip", "validated.roundtrip-into-a-used-value", "validated.expanded", "nontrivial-documents", "feature.schema.$ref", "feature.response.headers", "feature.securityScheme.type",
				"feature.securityScheme.flow", "feature.parameter.in", "feature.pathItem.$ref", "feature.response.$ref", "feature.parameter.$ref"}
		},
		MaxWorkers:  16,
		ChunkSize:   2,
		Assumptions: []string{"format checking is off (the statement speaks of the JSON schema)", "the independent validator is python jsonschema 4.x with its bundled draft-04 meta-schema; nothing is fetched"},
	})
}
