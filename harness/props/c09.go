package props

import (
	"bytes"
	"encoding/json"
	"fmt"
	"sort"

	"github.com/go-openapi/spec"

	"verifharness/core"
	"verifharness/gen"
	"verifharness/oracle"
)

// C09 — skip-schemas mode expands all but schemas and keeps their $refs valid.

func c09NumCases(env *core.Env) int {
	if env.Thorough() {
		return 40000
	}
	return 10000
}

// twinTextWorld builds a world in which the same relative $ref text occurs in documents of two different directories
// (each directory has its own other.json): the text designates a different document depending on where it is written.
func twinTextWorld(idx int) *gen.World {
	if idx >= 52 {
		return longChainWorld(idx)
	}
	if idx >= 48 {
		return sameTextChainWorld(idx)
	}
	dirs := []string{"file:///w/a/s/", "file:///w/", "file:///w/b/", "http://h.example/d/"}
	d2 := dirs[idx%len(dirs)]
	text := []string{"other.json#/definitions/d0", "./other.json#/definitions/d0", "other.json#/definitions/d1"}[(idx/4)%3]
	mk := func(tag string) map[string]interface{} {
		return map[string]interface{}{"definitions": map[string]interface{}{
			"d0": map[string]interface{}{"title": tag + ":d0", "type": "object"},
			"d1": map[string]interface{}{"title": tag + ":d1", "properties": map[string]interface{}{"p": map[string]interface{}{"$ref": "#/definitions/d0"}}},
		}}
	}
	holder := func() map[string]interface{} { return map[string]interface{}{"$ref": text} }
	imp := d2 + "x.json"
	rel := func(frag string) string { return gen.RefText(gen.RootURL, imp, nil, "abs") + frag }
	root := map[string]interface{}{
		"swagger": "2.0", "info": map[string]interface{}{"title": "t", "version": "1"},
		"definitions": map[string]interface{}{"local": map[string]interface{}{"title": "root:local", "items": holder()}},
		"parameters":  map[string]interface{}{"p0": map[string]interface{}{"$ref": rel("#/parameters/p0")}, "own": map[string]interface{}{"name": "own", "in": "body", "schema": holder()}},
		"responses":   map[string]interface{}{"r0": map[string]interface{}{"description": "root:r0", "schema": holder()}, "imported": map[string]interface{}{"$ref": rel("#/responses/r0")}},
		"paths": map[string]interface{}{"/a": map[string]interface{}{"$ref": rel("#/paths/~1a")},
			"/b": map[string]interface{}{"get": map[string]interface{}{"responses": map[string]interface{}{"200": map[string]interface{}{"description": "root:/b", "schema": holder()}}}}},
	}
	x := map[string]interface{}{
		"parameters": map[string]interface{}{"p0": map[string]interface{}{"name": "p", "in": "body", "description": "x:p0", "schema": holder()}},
		"responses":  map[string]interface{}{"r0": map[string]interface{}{"description": "x:r0", "schema": map[string]interface{}{"allOf": []interface{}{holder(), map[string]interface{}{"$ref": "#/definitions/dx"}}}}},
		"definitions": map[string]interface{}{"dx": map[string]interface{}{"title": "x:dx"}},
		"paths": map[string]interface{}{"/a": map[string]interface{}{"x-mark": "x:/a", "parameters": []interface{}{map[string]interface{}{"name": "q", "in": "body", "schema": holder()}},
			"post": map[string]interface{}{"responses": map[string]interface{}{"default": map[string]interface{}{"description": "x:/a", "schema": holder()}}}}},
	}
	return &gen.World{Root: gen.RootURL, Features: map[string]int{"twin-text-world": 1, "cross-document-ref": 1}, Slots: 9, Docs: map[string]interface{}{
		gen.RootURL: root, "file:///w/a/other.json": mk("a-other"), imp: x, d2 + "other.json": mk("second-other")}}
}

// sameTextChainWorld: a chain of parameter/response/path-item $refs whose consecutive hops carry the same relative text
// in documents of different directories.
func sameTextChainWorld(idx int) *gen.World {
	leafP := map[string]interface{}{"name": "p", "in": "body", "description": "leaf parameter", "schema": map[string]interface{}{"$ref": "#/definitions/d"}}
	leafR := map[string]interface{}{"description": "leaf response", "schema": map[string]interface{}{"$ref": "#/definitions/d"}}
	leafI := map[string]interface{}{"x-mark": "leaf path item", "get": map[string]interface{}{"responses": map[string]interface{}{"200": map[string]interface{}{"$ref": "#/responses/r0"}}}}
	hop := func(sec, name string) map[string]interface{} {
		return map[string]interface{}{"$ref": "../x.json#/" + sec + "/" + name}
	}
	mkHop := func() map[string]interface{} {
		return map[string]interface{}{
			"parameters": map[string]interface{}{"p0": hop("parameters", "p0")},
			"responses":  map[string]interface{}{"r0": hop("responses", "r0")},
			"paths":      map[string]interface{}{"/a": hop("paths", "~1a")},
		}
	}
	first := "file:///w/a/s/x.json"
	if idx%2 == 1 {
		first = "file:///w/a/s/other.json"
	}
	root := map[string]interface{}{"swagger": "2.0", "info": map[string]interface{}{"title": "t", "version": "1"},
		"parameters": map[string]interface{}{"p0": map[string]interface{}{"$ref": first + "#/parameters/p0"}},
		"responses":  map[string]interface{}{"r0": map[string]interface{}{"$ref": first + "#/responses/r0"}},
		"paths": map[string]interface{}{"/a": map[string]interface{}{"$ref": first + "#/paths/~1a"},
			"/b": map[string]interface{}{"post": map[string]interface{}{"parameters": []interface{}{map[string]interface{}{"$ref": first + "#/parameters/p0"}},
				"responses": map[string]interface{}{"default": map[string]interface{}{"$ref": first + "#/responses/r0"}}}}},
	}
	return &gen.World{Root: gen.RootURL, Features: map[string]int{"same-text-chain-world": 1, "cross-document-ref": 1, "chain-across-documents": 1}, Slots: 12, Docs: map[string]interface{}{
		gen.RootURL: root, first: mkHop(), "file:///w/a/x.json": mkHop(),
		"file:///w/x.json": map[string]interface{}{"parameters": map[string]interface{}{"p0": leafP}, "responses": map[string]interface{}{"r0": leafR}, "paths": map[string]interface{}{"/a": leafI},
			"definitions": map[string]interface{}{"d": map[string]interface{}{"title": "leaf definition", "type": "object"}}}}}
}

// longChainWorld: an acyclic chain of n schema $refs (one ending in a self loop), in the root or in a second document:
// deeper than any bound a cycle detector may be tempted to put on the $ref stack.
func longChainWorld(idx int) *gen.World {
	n := []int{40, 64, 33, 100}[idx%4]
	loop := idx%2 == 1
	other := (idx/2)%2 == 1
	doc := gen.RootURL
	if other {
		doc = "file:///w/a/s/x.json"
	}
	defs := map[string]interface{}{}
	for i := 0; i < n; i++ {
		defs[fmt.Sprintf("c%d", i)] = map[string]interface{}{"title": fmt.Sprintf("link %d", i), "properties": map[string]interface{}{"next": map[string]interface{}{"$ref": fmt.Sprintf("#/definitions/c%d", i+1)}}}
	}
	last := map[string]interface{}{"title": "end of the chain", "type": "object"}
	if loop {
		last["additionalProperties"] = map[string]interface{}{"$ref": fmt.Sprintf("#/definitions/c%d", n)}
	}
	defs[fmt.Sprintf("c%d", n)] = last
	root := map[string]interface{}{"swagger": "2.0", "info": map[string]interface{}{"title": "t", "version": "1"}, "paths": map[string]interface{}{}}
	w := &gen.World{Root: gen.RootURL, Features: map[string]int{"long-chain-world": 1}, Slots: n + 1, Docs: map[string]interface{}{gen.RootURL: root}}
	if other {
		w.Docs[doc] = map[string]interface{}{"definitions": defs}
		root["definitions"] = map[string]interface{}{"entry": map[string]interface{}{"$ref": "s/x.json#/definitions/c0"}}
		w.Features["cross-document-ref"] = 1
	} else {
		root["definitions"] = defs
	}
	return w
}

const c09TwinWorlds = 48 + 4 + 4

func c09World(env *core.Env, idx int) (*gen.World, bool) {
	if idx < c09TwinWorlds {
		return twinTextWorld(idx), idx%2 == 0
	}
	rng := core.Rng(env.Seed, "C09", idx)
	o := gen.WorldOpts{}
	o.NDocs = 2 + rng.Intn(4)
	o.Cyclic = rng.Intn(2) == 0
	o.Nested = rng.Intn(2) == 0
	o.Chains = rng.Intn(3) == 0
	o.HostileNames = rng.Intn(4) == 0
	o.PrefixDocs = rng.Intn(6) == 0
	o.HTTP = rng.Intn(3) == 0
	o.Siblings = rng.Intn(4) == 0
	o.Elements = 1 + rng.Intn(3)
	o.MaxDepth = 1 + rng.Intn(2)
	o.RefDensity = []float64{0.5, 0.65, 0.8}[rng.Intn(3)]
	w := gen.GenWorld(rng, o)
	if idx%5 == 0 {
		w = gen.Relocate(w, gen.Layouts[(idx/5)%len(gen.Layouts)])
	}
	return w, rng.Intn(2) == 0
}

type skipWalker struct {
	in, out *oracle.OWorld
	root    string
	seen    map[[2]oracle.State]bool
	report  func(class, detail string)
	rewritten, holders, imported int
}

func (sw *skipWalker) walk(a, b oracle.State, kind string, imported bool) {
	key := [2]oracle.State{a, b}
	if sw.seen[key] {
		return
	}
	sw.seen[key] = true
	if kind != "schema" {
		// parameters, responses and path items are completely dereferenced
		ra := sw.in.Deref(a)
		if ra.Class != "node" {
			return // ill-founded or unresolvable: outside the property
		}
		if ra.Hops > 0 && ra.St.Doc != sw.root {
			imported = true
		}
		bn, ok := sw.out.Lookup(b)
		if !ok {
			sw.report("skip: element missing in the output", b.String())
			return
		}
		if ref, isRef := oracle.RefOf(bn); isRef {
			sw.report("skip: $ref left on a "+kind, fmt.Sprintf("%s still holds $ref %q", b.Ptr, ref))
			return
		}
		ha, ca := oracle.Split(ra.Node, ra.St, kind)
		hb, cb := oracle.Split(bn, b, kind)
		if !oracle.Equal(ha, hb) {
			sw.report("skip: "+kind+" content differs", fmt.Sprintf("%s: input %s vs output %s", b.Ptr, core.Abbrev(oracle.Text(ha), 200), core.Abbrev(oracle.Text(hb), 200)))
			return
		}
		if len(ca) != len(cb) {
			sw.report("skip: "+kind+" positions differ", b.Ptr)
			return
		}
		for i := range ca {
			sw.walk(ca[i].St, cb[i].St, ca[i].Kind, imported)
		}
		return
	}
	an, ok1 := sw.in.Lookup(a)
	bn, ok2 := sw.out.Lookup(b)
	if !ok1 || !ok2 {
		sw.report("skip: schema position missing", a.String()+" / "+b.String())
		return
	}
	aref, aIs := oracle.RefOf(an)
	bref, bIs := oracle.RefOf(bn)
	switch {
	case aIs && !bIs:
		sw.report("skip: a schema $ref was replaced", fmt.Sprintf("%s held $ref %q in the input (%s), the output has an inline schema", b.Ptr, aref, a))
		return
	case !aIs && bIs:
		sw.report("skip: a schema $ref was invented", fmt.Sprintf("%s holds $ref %q, the input (%s) had an inline schema", b.Ptr, bref, a))
		return
	case aIs && bIs:
		sw.holders++
		if imported {
			sw.imported++
		}
		ta, err1 := oracle.RefTarget(a.Doc, aref)
		tb, err2 := oracle.RefTarget(sw.root, bref)
		if err1 != nil || err2 != nil {
			sw.report("skip: unparsable schema $ref", fmt.Sprintf("%q / %q", aref, bref))
			return
		}
		if aref != bref {
			sw.rewritten++
		}
		if !oracle.SameURL(ta.Doc, tb.Doc) || ta.Ptr != tb.Ptr {
			sw.report("skip: rewritten schema $ref designates another target", fmt.Sprintf("%s: input %q in %s designates %s; output %q read from the root designates %s", b.Ptr, aref, a.Doc, ta, bref, tb))
		} else if tb.Doc == sw.root && !isFragmentOnly(bref) {
			sw.report("skip: schema $ref into the root is not fragment-only", fmt.Sprintf("%s holds %q", b.Ptr, bref))
		}
		return
	}
	ha, ca := oracle.Split(an, a, "schema")
	hb, cb := oracle.Split(bn, b, "schema")
	if !oracle.Equal(ha, hb) {
		sw.report("skip: schema content differs", fmt.Sprintf("%s: %s vs %s", b.Ptr, core.Abbrev(oracle.Text(ha), 200), core.Abbrev(oracle.Text(hb), 200)))
		return
	}
	if len(ca) != len(cb) {
		sw.report("skip: schema positions differ", b.Ptr)
		return
	}
	for i := range ca {
		sw.walk(ca[i].St, cb[i].St, "schema", imported)
	}
}

func c09Run(env *core.Env, idx int) core.CaseResult {
	var res core.CaseResult
	w, absolute := c09World(env, idx)
	in := oworld(w)
	res.Hash = core.HashOf(w.Docs)
	countFeatures(&res, w)
	allStarts := oracle.SpecStarts(in, w.Root, true)
	acyclic := in.Acyclic(allStarts)
	o := expandOpts{Skip: true, Absolute: absolute}
	r := runExpandSpec(w, o)
	res.Evals++
	wit := worldWitness(w, o, nil)
	if r.Panic != "" {
		res.Violate("panic: "+errClass(fmt.Errorf("%s", r.Panic)), r.Panic, wit)
		return res
	}
	if r.Err != nil {
		// every reference of a fault-free world is resolvable
		refs, _ := in.Reachable(oracle.SpecStarts(in, w.Root, false), true)
		for _, ri := range refs {
			if !ri.Resolvable && ri.Kind != "schema" {
				res.Inconcl = "generator produced an unresolvable reference"
				return res
			}
		}
		res.Violate("spurious-error (skip-schemas): "+errClass(r.Err), r.Err.Error(), wit)
		return res
	}
	wit["output"] = r.Out
	report := func(class, detail string) { res.Violate(class, detail, wit) }
	outW := withRoot(in, w.Root, r.Out)
	// definitions untouched
	inDefs, _ := oracle.EvalPointer(in.Docs[w.Root], "/definitions")
	outDefs, _ := oracle.EvalPointer(r.Out, "/definitions")
	if !oracle.Equal(inDefs, outDefs) {
		d := oracle.Diff(inDefs, outDefs)
		report("skip: definitions changed", fmt.Sprintf("at /definitions%s: %s -> %s", d[0].Pointer(), core.Abbrev(oracle.Text(d[0].Before), 150), core.Abbrev(oracle.Text(d[0].After), 150)))
	}
	sw := &skipWalker{in: in, out: outW, root: w.Root, seen: map[[2]oracle.State]bool{}, report: report}
	for _, st := range oracle.SpecStarts(in, w.Root, false) {
		sw.walk(st.St, st.St, st.Kind, false)
	}
	res.Count("schema-ref-holders-checked", sw.holders)
	res.Count("schema-refs-rewritten", sw.rewritten)
	res.Count("schema-refs-in-imported-elements", sw.imported)
	// same denotation
	mm, cmp := monitorMeaning(in, w.Root, r.Out, true)
	res.Count("positions-compared", cmp)
	for i, m := range mm {
		if i == 0 {
			report("skip: not-bisimilar "+mismatchClass(m), m)
		}
	}
	// two stages: full expansion of the skip result == direct full expansion
	if len(res.Violations) == 0 {
		direct := runExpandSpec(w, expandOpts{Absolute: absolute})
		res.Evals++
		staged := expandTyped(w, r.OutText, expandOpts{Absolute: absolute})
		res.Evals++
		switch {
		case direct.Err != nil || direct.Panic != "":
			res.Count("direct-expansion-failed", 1)
		case staged.Err != nil || staged.Panic != "":
			report("two-stage: full expansion of the skip result fails", fmt.Sprintf("%v %s", staged.Err, staged.Panic))
		default:
			res.Count("two-stage-compared", 1)
			if acyclic && !bytes.Equal(direct.OutText, staged.OutText) {
				report("two-stage: acyclic outputs differ", "skip-then-full differs from direct full expansion")
			}
			directW := withRoot(in, w.Root, direct.Out)
			stagedW := withRoot(in, w.Root, staged.Out)
			for _, st := range allStarts {
				if m := oracle.Bisimilar(directW, st.St, stagedW, st.St, st.Kind); m != nil {
					report("two-stage: not bisimilar to direct expansion", fmt.Sprintf("%s%s: %s", st.St.Ptr, m.Path, m.Reason))
					break
				}
			}
		}
	}
	// the same documents with another root, in another directory, in the same process
	if idx >= c09TwinWorlds && len(w.Docs) > 1 && len(res.Violations) == 0 {
		var others []string
		for u := range w.Docs {
			if u != w.Root {
				others = append(others, u)
			}
		}
		sort.Strings(others)
		alt := &gen.World{Docs: w.Docs, Root: others[idx%len(others)], Features: w.Features}
		inAlt := oworld(alt)
		refsAlt, _ := inAlt.Reachable(oracle.SpecStarts(inAlt, alt.Root, false), true)
		ok := true
		for _, ri := range refsAlt {
			if !ri.Resolvable && ri.Kind != "schema" {
				ok = false
			}
		}
		if ok {
			ra := runExpandSpec(alt, o)
			res.Evals++
			res.Count("second-root-in-same-process", 1)
			witAlt := worldWitness(alt, o, map[string]interface{}{"note": "second expansion in the same process, root = another document of the same world"})
			if ra.Panic != "" || ra.Err != nil {
				res.Violate("skip(second root): spurious-error: "+errClass(fmt.Errorf("%v %s", ra.Err, ra.Panic)), fmt.Sprintf("%v %s", ra.Err, ra.Panic), witAlt)
			} else {
				witAlt["output"] = ra.Out
				outAlt := withRoot(inAlt, alt.Root, ra.Out)
				sw2 := &skipWalker{in: inAlt, out: outAlt, root: alt.Root, seen: map[[2]oracle.State]bool{}, report: func(class, detail string) { res.Violate(class+" (second root)", detail, witAlt) }}
				for _, st := range oracle.SpecStarts(inAlt, alt.Root, false) {
					sw2.walk(st.St, st.St, st.Kind, false)
				}
			}
		}
	}
	res.NonTrivial = sw.imported > 0 && sw.rewritten > 0
	if acyclic {
		res.Count("world.acyclic", 1)
	} else {
		res.Count("world.cyclic", 1)
	}
	res.Sample = map[string]interface{}{"documents": len(w.Docs), "ref_holders": w.Slots, "schema_refs_rewritten": sw.rewritten, "in_imported_elements": sw.imported}
	return res
}

// expandTyped runs a second ExpandSpec on a root given as text (the other documents come from the world).
func expandTyped(w *gen.World, rootText []byte, o expandOpts) expandResult {
	var r expandResult
	ld := newLoader(w)
	sw := new(spec.Swagger)
	if err := json.Unmarshal(rootText, sw); err != nil {
		r.Err = err
		return r
	}
	curHooks = &hookCollector{}
	func() {
		defer func() {
			if rec := recover(); rec != nil {
				r.Panic = fmt.Sprint(rec)
			}
		}()
		opts := &spec.ExpandOptions{RelativeBase: w.Root, SkipSchemas: o.Skip, ContinueOnError: o.Continue, AbsoluteCircularRef: o.Absolute, PathLoader: ld.load}
		r.Err = spec.ExpandSpec(sw, opts)
	}()
	curHooks = nil
	if r.Panic != "" || r.Err != nil {
		return r
	}
	b, err := json.Marshal(sw)
	if err != nil {
		r.Panic = err.Error()
		return r
	}
	r.OutText = b
	_ = json.Unmarshal(b, &r.Out)
	return r
}

func init() {
	core.Register(&core.Property{
		ID:    "C09",
		Level: "exploration",
		Rule: "G-WORLD worlds with a high density of parameter/response/path-item $refs into documents of other directories whose schemas point back to the root, to their own document and to third documents; ExpandSpec with SkipSchemas; " +
			"monitors: no $ref left on non-schema holders, definitions untouched, every schema $ref holder conserved (none replaced, none invented) and designating the same target read from the root (fragment-only into the root), " +
			"denotations bisimilar to the input, full expansion of the skip result bisimilar to (acyclic: byte-equal with) direct full expansion. non-trivial = an imported element carries a schema $ref that had to be rewritten",
		NumCases: c09NumCases,
		Run:      c09Run,
		Floors: func(env *core.Env) []string {
			return []string{"schema-ref-holders-checked", "schema-refs-rewritten", "schema-refs-in-imported-elements", "positions-compared", "two-stage-compared", "world.acyclic", "world.cyclic",
				"dir.same", "dir.sub", "dir.parent", "dir.cousin", "dir.http", "feat.chain-across-documents", "feat.twin-text-world", "feat.long-chain-world", "second-root-in-same-process", "feat.layout.ports", "feat.layout.hosts", "feat.layout.schemes"}
		},
		Assumptions: []string{"the two-stage comparison feeds the skip result back as the root document at the same location, with the same loader"},
	})
}
