package props

import (
	"bytes"
	"encoding/gob"
	"encoding/json"
	"fmt"
	"os"
	"os/exec"
	"path/filepath"
	"runtime"
	"sort"
	"strings"
	"sync"
	"time"

	"github.com/anishathalye/porcupine"
	"github.com/go-openapi/jsonpointer"
	"github.com/go-openapi/spec"

	"verifharness/core"
	"verifharness/gen"
	"verifharness/oracle"
)

// C17 — concurrent use on independent data is race-free with sequential answers.
//
// The worker is built with -race; GORACE=halt_on_error=0 log_path=<work>/race makes the runtime append every report to a
// file, which the monitor reads after the goroutines of a case have been joined (exit codes are not trusted).
// In the first pass of each workload the hooks touch no shared memory (no happens-before edge is added); a second pass
// with a mutex-protected recorder measures overlap and interleaving signatures.

func c17NumCases(env *core.Env) int {
	if env.Thorough() {
		return 1200 + 512
	}
	return 120 + 64
}

func c17ColdStarts(env *core.Env) int {
	if env.Thorough() {
		return 512
	}
	return 64
}

// raceReports counts "WARNING: DATA RACE" blocks in this process's race log that appeared since the last call and returns
// de-duplicated signatures (outermost package-level frames of the two stacks, line numbers stripped).
type raceLog struct {
	offset map[string]int64
}

var theRaceLog = &raceLog{offset: map[string]int64{}}

func raceLogPath() string {
	for _, kv := range strings.Fields(os.Getenv("GORACE")) {
		if strings.HasPrefix(kv, "log_path=") {
			return strings.TrimPrefix(kv, "log_path=")
		}
	}
	return ""
}

func (rl *raceLog) newReports() (int, []string) {
	base := raceLogPath()
	if base == "" {
		return 0, nil
	}
	path := fmt.Sprintf("%s.%d", base, os.Getpid())
	b, err := os.ReadFile(path)
	if err != nil {
		return 0, nil
	}
	off := rl.offset[path]
	if int64(len(b)) <= off {
		return 0, nil
	}
	fresh := string(b[off:])
	rl.offset[path] = int64(len(b))
	blocks := strings.Split(fresh, "WARNING: DATA RACE")
	n := len(blocks) - 1
	sigs := map[string]bool{}
	for _, blk := range blocks[1:] {
		var frames []string
		for _, line := range strings.Split(blk, "\n") {
			line = strings.TrimSpace(line)
			if strings.HasPrefix(line, "github.com/go-openapi/spec.") {
				f := line
				if i := strings.LastIndex(f, "("); i > 0 {
					f = f[:i]
				}
				frames = append(frames, strings.TrimPrefix(f, "github.com/go-openapi/spec."))
			}
		}
		if len(frames) > 4 {
			frames = frames[:4]
		}
		sigs[strings.Join(frames, " | ")] = true
	}
	return n, sortedStrings(sigs)
}

// ---- hooks for this property

type overlapRecorder struct {
	mu       sync.Mutex
	inflight int
	maxIn    int
	events   []string
	rank     map[int64]int
}

func (o *overlapRecorder) enter() {
	o.mu.Lock()
	o.inflight++
	if o.inflight > o.maxIn {
		o.maxIn = o.inflight
	}
	o.mu.Unlock()
}

func (o *overlapRecorder) leave() {
	o.mu.Lock()
	o.inflight--
	o.mu.Unlock()
}

func spin(n int) {
	x := 0
	for i := 0; i < n; i++ {
		x += i
	}
	_ = x
}

// yieldNoShared widens windows without touching shared memory.
func yieldNoShared(site string) {
	runtime.Gosched()
	spin(len(site) * 40)
	runtime.Gosched()
}

type c17Job struct {
	name string
	run  func() ([]byte, error) // result bytes compared with the sequential reference
	ref  []byte
	sem  func(out []byte) string // optional semantic comparison when bytes differ ("" = ok)
	// answerOpen: the sequential answer is itself not a function of the input (worlds with ids that are not URIs: such an id registers
	// its schema under the base location, and whether a later reference back to that location meets it depends on map order);
	// these jobs are there for the race detector and the deadlock watch only
	answerOpen bool
}

// runConcurrently releases all jobs from a barrier and returns their results.
func runConcurrently(jobs []c17Job, rec *overlapRecorder) ([][]byte, []error, []string) {
	outs := make([][]byte, len(jobs))
	errs := make([]error, len(jobs))
	pans := make([]string, len(jobs))
	var wg sync.WaitGroup
	start := make(chan struct{})
	for i := range jobs {
		wg.Add(1)
		go func(i int) {
			defer wg.Done()
			defer func() {
				if r := recover(); r != nil {
					pans[i] = fmt.Sprint(r)
				}
			}()
			<-start
			if rec != nil {
				rec.enter()
				defer rec.leave()
			}
			outs[i], errs[i] = jobs[i].run()
		}(i)
	}
	close(start)
	done := make(chan struct{})
	go func() { wg.Wait(); close(done) }()
	select {
	case <-done:
	case <-time.After(45 * time.Second): // a case normally takes well under a second
		// no logical clock exists for "no deadlock": confirm by looking at the goroutines twice. If the same goroutines sit in the same
		// blocking calls inside the package 5 s apart and nothing has finished, nothing can make progress any more.
		d1 := blockedInPackage()
		select {
		case <-done:
			return outs, errs, pans
		case <-time.After(5 * time.Second):
		}
		d2 := blockedInPackage()
		if len(d1) > 0 && strings.Join(d1, "\n") == strings.Join(d2, "\n") {
			for i := range pans {
				if outs[i] == nil && errs[i] == nil && pans[i] == "" {
					pans[i] = "DEADLOCK: this call never returned; goroutines blocked inside the package (unchanged over 5 s):\n" + strings.Join(d2, "\n")
				}
			}
			return outs, errs, pans
		}
		<-done // still making progress: wait (the supervisor's watchdog bounds this)
	}
	return outs, errs, pans
}

// blockedInPackage lists goroutines that are parked in a blocking call with a frame of the package under test on their stack.
func blockedInPackage() []string {
	buf := make([]byte, 8<<20)
	buf = buf[:runtime.Stack(buf, true)]
	var out []string
	for _, g := range strings.Split(string(buf), "\n\n") {
		head := g
		if i := strings.Index(g, "\n"); i > 0 {
			head = g[:i]
		}
		blocked := false
		for _, st := range []string{"[semacquire", "[sync.RWMutex", "[sync.Mutex", "[chan send", "[chan receive", "[select", "[sync.Cond"} {
			if strings.Contains(head, st) {
				blocked = true
			}
		}
		if !blocked || !strings.Contains(g, "github.com/go-openapi/spec.") {
			continue
		}
		// goroutine id + state + first package frame
		frame := ""
		for _, line := range strings.Split(g, "\n") {
			if strings.HasPrefix(line, "github.com/go-openapi/spec.") {
				frame = line
				if i := strings.LastIndex(frame, "("); i > 0 {
					frame = frame[:i]
				}
				break
			}
		}
		if i := strings.Index(head, ","); i > 0 {
			head = head[:i] + "]" // drop the "N minutes" part, which changes
		}
		out = append(out, head+" "+frame)
	}
	sort.Strings(out)
	return out
}

func expandJob(w *gen.World, kind int, cache func() spec.ResolutionCache) func() ([]byte, error) {
	texts := map[string][]byte{}
	for u, d := range w.Docs {
		b, _ := json.Marshal(d)
		texts[u] = b
	}
	loader := func(u string) (json.RawMessage, error) {
		b, ok := texts[u]
		if !ok {
			return nil, fmt.Errorf("no document at %s", u)
		}
		return json.RawMessage(append([]byte{}, b...)), nil
	}
	root, _ := w.Docs[w.Root].(map[string]interface{})
	var defs []string
	if dm, ok := root["definitions"].(map[string]interface{}); ok {
		for k := range dm {
			defs = append(defs, k)
		}
	}
	sort.Strings(defs)
	return func() ([]byte, error) {
		opts := &spec.ExpandOptions{RelativeBase: w.Root, PathLoader: loader}
		switch {
		case kind == 0 || len(defs) == 0:
			sw := new(spec.Swagger)
			if err := json.Unmarshal(texts[w.Root], sw); err != nil {
				return nil, err
			}
			if err := spec.ExpandSpec(sw, opts); err != nil {
				return nil, err
			}
			return json.Marshal(sw)
		case kind == 1:
			s := spec.RefSchema(gen.RefText(w.Root, w.Root, []string{"definitions", defs[0]}, "samefile"))
			var c spec.ResolutionCache
			if cache != nil {
				c = cache()
			}
			if err := spec.ExpandSchemaWithBasePath(s, c, opts); err != nil {
				return nil, err
			}
			return json.Marshal(s)
		default:
			ref := spec.MustCreateRef(gen.RefText(w.Root, w.Root, []string{"definitions", defs[len(defs)-1]}, "abs"))
			s, err := spec.ResolveRefWithBase(nil, &ref, opts)
			if err != nil {
				return nil, err
			}
			return json.Marshal(s)
		}
	}
}

func c17World(rng interface{ Intn(int) int }, seed int64, idx, g int, acyclicOnly bool) *gen.World {
	r := core.Rng(seed, "C17/world", idx*1000+g)
	o := gen.WorldOpts{NDocs: 1 + r.Intn(3), Cyclic: !acyclicOnly && r.Intn(2) == 0, Nested: r.Intn(2) == 0, Chains: r.Intn(2) == 0, Elements: 2 + r.Intn(2), MaxDepth: 1 + r.Intn(2), RefDensity: 0.6}
	if !acyclicOnly && r.Intn(4) == 0 {
		o.IDs = 6 // ids that are not URIs, a different one at every place
	}
	if !acyclicOnly && r.Intn(3) == 0 {
		o.MissingDoc, o.Dangling, o.HollowDoc = 0.15, 0.1, 0.15 // calls that fail must fail the same way, and must not hold up the others
	}
	return gen.GenWorld(r, o)
}

func c17Run(env *core.Env, idx int) core.CaseResult {
	var res core.CaseResult
	nWork := c17NumCases(env) - c17ColdStarts(env)
	if idx >= nWork {
		return c17ColdStart(env, idx-nWork)
	}
	rng := core.Rng(env.Seed, "C17", idx)
	N := []int{2, 4, 8, 16, 64}[idx%5]
	procs := []int{1, 2, 4, 16}[(idx/5)%4]
	prev := runtime.GOMAXPROCS(procs)
	defer runtime.GOMAXPROCS(prev)
	workload := []string{"distinct-documents", "shared-cache", "shared-document", "cache-history"}[(idx/20)%4]
	res.Count("workload."+workload, 1)
	res.Count(fmt.Sprintf("goroutines.%d", N), 1)
	res.Count(fmt.Sprintf("gomaxprocs.%d", procs), 1)
	res.Hash = fmt.Sprintf("%s/%d/%d/%d", workload, N, procs, idx)
	res.Sample = map[string]interface{}{"workload": workload, "goroutines": N, "gomaxprocs": procs}
	wit := map[string]interface{}{"workload": workload, "goroutines": N, "gomaxprocs": procs}

	// hooks of the sequential monitors off: they use shared state
	savedStep, savedRes, savedYield := spec.VerifHooks.Step, spec.VerifHooks.Resolved, spec.VerifHooks.Yield
	spec.VerifHooks.Step, spec.VerifHooks.Resolved = nil, nil
	defer func() { spec.VerifHooks.Step, spec.VerifHooks.Resolved, spec.VerifHooks.Yield = savedStep, savedRes, savedYield }()
	theRaceLog.newReports() // anything earlier is not ours

	var jobs []c17Job
	switch workload {
	case "distinct-documents":
		for g := 0; g < N; g++ {
			w := c17World(rng, env.Seed, idx, g, false)
			if w.Features["fault.hollow-document"] > 0 {
				res.Count("world-with-null-document", 1)
			}
			kind := g % 3
			var mk func() spec.ResolutionCache
			if g%2 == 0 {
				mk = func() spec.ResolutionCache { return spec.VerifNewDefaultCache() } // a cache of its own
			}
			run := expandJob(w, kind, mk)
			in := oworld(w)
			root := w.Root
			j := c17Job{name: fmt.Sprintf("g%d kind%d", g, kind), run: run, answerOpen: strings.Contains(string(mustJSON(w.Docs)), `"id":"%zz-`)}
			if kind == 1 {
				// the same element expanded alone may differ in bytes (map order on cycles): compare denotations then
				rootDoc, _ := w.Docs[w.Root].(map[string]interface{})
				var defs []string
				if dm, ok := rootDoc["definitions"].(map[string]interface{}); ok {
					for k := range dm {
						defs = append(defs, k)
					}
				}
				sort.Strings(defs)
				if len(defs) > 0 {
					toks := []string{"definitions", defs[0]}
					st := oracle.State{Doc: root, Ptr: oracle.TokensToPointer(toks)}
					j.sem = func(out []byte) string {
						var o interface{}
						if json.Unmarshal(out, &o) != nil {
							return "unparsable result"
						}
						outW := withRoot(in, root, setAt(in.Docs[root], toks, o))
						if m := oracle.Bisimilar(in, st, outW, st, "schema"); m != nil {
							return m.Path + ": " + m.Reason
						}
						return ""
					}
				}
			}
			if kind == 0 {
				j.sem = func(out []byte) string {
					var o interface{}
					if json.Unmarshal(out, &o) != nil {
						return "unparsable result"
					}
					if mm, _ := monitorMeaning(in, root, o, true); len(mm) > 0 {
						return mm[0]
					}
					return ""
				}
			}
			jobs = append(jobs, j)
		}
	case "shared-cache":
		w := c17World(rng, env.Seed, idx, 0, true)
		if idx%3 == 0 {
			// the shared cache also sees documents that are missing or hollow (null): every caller fails, none may be held up
			r := core.Rng(env.Seed, "C17/shared-faulty", idx)
			w = gen.GenWorld(r, gen.WorldOpts{NDocs: 2 + r.Intn(2), Nested: r.Intn(2) == 0, Elements: 2 + r.Intn(2), MaxDepth: 1 + r.Intn(2), RefDensity: 0.6, MissingDoc: 0.1, HollowDoc: 0.3})
			if w.Features["fault.hollow-document"] > 0 {
				res.Count("world-with-null-document", 1)
			}
		}
		shared := spec.VerifNewDefaultCache()
		for g := 0; g < N; g++ {
			jobs = append(jobs, c17Job{name: fmt.Sprintf("g%d", g), run: expandJob(w, 1, func() spec.ResolutionCache { return shared })})
		}
		// sequential reference with a cache of its own
		refRun := expandJob(w, 1, func() spec.ResolutionCache { return spec.VerifNewDefaultCache() })
		ref, _ := refRun()
		for i := range jobs {
			jobs[i].ref = ref
		}
	case "shared-document":
		dg := gen.NewDocGen(core.Rng(env.Seed, "C17/doc", idx))
		dg.Refs, dg.XOrder = true, true
		dg.Density = 1.5
		doc := dg.Swagger(nil)
		// one definition is an absolute reference to another document: its Ref value is copied out of the shared document by resolvers
		defs, _ := doc["definitions"].(map[string]interface{})
		if defs == nil {
			defs = map[string]interface{}{}
			doc["definitions"] = defs
		}
		defs["c17abs"] = map[string]interface{}{"$ref": "file:///c17/shared/other.json#/definitions/Shared"}
		otherDoc := json.RawMessage(`{"definitions":{"Shared":{"title":"shared definition of the other document","type":"object"}}}`)
		text, _ := json.Marshal(doc)
		sw := new(spec.Swagger)
		if err := json.Unmarshal(text, sw); err != nil {
			return res
		}
		// parts made with the builder API, as a Go program would add them (nil scope lists, nil maps and slices where a decoder
		// leaves empty ones): finished before the goroutines start, read-only afterwards
		built := spec.NewOperation("c17built").SecuredWith("basic").SecuredWith("oauth", "read").WithTags("built").
			RespondsWith(200, spec.NewResponse().WithDescription("ok")).AddParam(spec.QueryParam("q").Typed("string", ""))
		if sw.Paths == nil {
			sw.Paths = &spec.Paths{}
		}
		if sw.Paths.Paths == nil {
			sw.Paths.Paths = map[string]spec.PathItem{}
		}
		sw.Paths.Paths["/c17-built"] = spec.PathItem{PathItemProps: spec.PathItemProps{Get: built}}
		sw.Security = append(sw.Security, map[string][]string{"c17key": nil})
		if sw.Definitions == nil {
			sw.Definitions = spec.Definitions{}
		}
		sw.Definitions["c17built"] = *spec.MapProperty(spec.StringProperty()).WithRequired("a").SetProperty("a", *spec.ArrayProperty(spec.Int64Property()))
		res.Count("shared-document-with-builder-made-parts", 1)
		var ptrs []string
		for p := range dg.Kinds {
			ptrs = append(ptrs, p)
		}
		ptrs = append(ptrs, "/paths/~1c17-built/get/security/0/basic", "/definitions/c17built/properties/a/items")
		sort.Strings(ptrs)
		if len(ptrs) > 40 {
			ptrs = ptrs[:40]
		}
		for g := 0; g < N; g++ {
			g := g
			jobs = append(jobs, c17Job{name: fmt.Sprintf("g%d", g), run: func() ([]byte, error) {
				var buf bytes.Buffer
				for rep := 0; rep < 3; rep++ {
					if g%4 == 2 {
						// resolution through a copy of a Ref value that lives in the shared document (read-only for it)
						ref := sw.Definitions["c17abs"].Ref
						s, err := spec.ResolveRefWithBase(nil, &ref, &spec.ExpandOptions{RelativeBase: "file:///c17/shared/root.json",
							PathLoader: func(string) (json.RawMessage, error) { return otherDoc, nil }})
						if err != nil {
							return nil, err
						}
						b, _ := json.Marshal(s)
						buf.Write(b)
						buf.WriteString(ref.String())
						continue
					}
					if g%4 == 3 {
						// gob transport of the shared document (read-only for it as well)
						var gb bytes.Buffer
						if err := gob.NewEncoder(&gb).Encode(sw); err != nil {
							return nil, err
						}
						back := new(spec.Swagger)
						if err := gob.NewDecoder(&gb).Decode(back); err != nil {
							return nil, err
						}
						b, err := json.Marshal(back)
						if err != nil {
							return nil, err
						}
						buf.Write(b)
						continue
					}
					if g%2 == 0 {
						b, err := json.Marshal(sw)
						if err != nil {
							return nil, err
						}
						buf.Write(b)
					} else {
						for _, p := range ptrs {
							ptr, err := jsonpointer.New(p)
							if err != nil {
								continue
							}
							v, _, err := ptr.Get(sw)
							if err != nil {
								buf.WriteString("ERR " + p + "\n")
								continue
							}
							b, _ := json.Marshal(v)
							buf.Write(b)
						}
					}
				}
				return buf.Bytes(), nil
			}})
		}
	case "cache-history":
		return c17CacheHistory(env, idx, N, &res, wit)
	}
	// sequential references (the answers each call gives running alone): before the concurrent passes, or - every other case - after
	// the first one, so that whatever the package does "the first time it sees something" happens under concurrency as well
	computeRefs := func() {
		for i := range jobs {
			if jobs[i].ref == nil {
				b, err := jobs[i].run()
				if err != nil {
					b = []byte("ERROR: " + err.Error())
				}
				jobs[i].ref = b
			}
		}
	}
	refsFirst := idx%2 == 0
	if refsFirst {
		computeRefs()
	} else {
		res.Count("references-computed-after-the-first-concurrent-pass", 1)
	}
	for pass := 0; pass < 2; pass++ {
		var rec *overlapRecorder
		if pass == 0 {
			spec.VerifHooks.Yield = yieldNoShared
		} else {
			rec = &overlapRecorder{}
			r := rec
			spec.VerifHooks.Yield = func(site string) {
				r.mu.Lock()
				if len(r.events) < 4000 {
					r.events = append(r.events, site)
				}
				r.mu.Unlock()
				runtime.Gosched()
			}
		}
		outs, errs, pans := runConcurrently(jobs, rec)
		if !refsFirst && pass == 0 {
			computeRefs()
		}
		res.Evals += len(jobs)
		for i, j := range jobs {
			got := outs[i]
			if errs[i] != nil {
				got = []byte("ERROR: " + errs[i].Error())
			}
			switch {
			case strings.HasPrefix(pans[i], "DEADLOCK"):
				res.Violate("hang (deadlock) ["+workload+"]", pans[i], wit)
			case pans[i] != "":
				res.Violate("panic in a concurrent call ["+workload+"]", pans[i], wit)
			case bytes.HasPrefix(got, []byte("ERROR: ")) && bytes.HasPrefix(j.ref, []byte("ERROR: ")):
				// a world with several faults fails on whichever is met first (map order): failing is the answer
				res.Count("both-fail", 1)
			case j.answerOpen:
				res.Count("answer-not-compared(invalid-id-world)", 1)
			case !bytes.Equal(got, j.ref):
				if j.sem != nil && errs[i] == nil {
					if why := j.sem(got); why == "" {
						res.Count("differs-in-bytes-only(map-order)", 1)
						continue
					}
				}
				res.Violate("concurrent-answer-differs-from-sequential ["+workload+"]", fmt.Sprintf("%s: got %s, alone it returns %s", j.name, core.Abbrev(string(got), 200), core.Abbrev(string(j.ref), 200)), wit)
			}
		}
		if rec != nil {
			res.Count("max-in-flight-sum", rec.maxIn)
			if rec.maxIn >= 2 {
				res.NonTrivial = true
				res.Count("cases-with-overlap", 1)
			}
			res.Count("yield-events", len(rec.events))
			res.Count("interleaving-signature."+core.HashOf(rec.events)[:6], 1)
		}
		n, sigs := theRaceLog.newReports()
		if n > 0 {
			for _, s := range sigs {
				res.Violate("data-race ["+workload+"] "+s, fmt.Sprintf("%d race reports in this pass; signature: %s", n, s), wit)
			}
			if len(sigs) == 0 {
				res.Violate("data-race ["+workload+"] (outside the package frames)", fmt.Sprintf("%d race reports", n), wit)
			}
		}
	}
	return res
}

// ---- linearizability of the default cache's Get/Set history

type cacheOp struct {
	Key   string
	Write bool
	Val   string
}

type cacheOut struct {
	Val   string
	Found bool
}

var cacheModel = porcupine.Model{
	Partition: func(history []porcupine.Operation) [][]porcupine.Operation {
		byKey := map[string][]porcupine.Operation{}
		for _, op := range history {
			k := op.Input.(cacheOp).Key
			byKey[k] = append(byKey[k], op)
		}
		var keys []string
		for k := range byKey {
			keys = append(keys, k)
		}
		sort.Strings(keys)
		var out [][]porcupine.Operation
		for _, k := range keys {
			out = append(out, byKey[k])
		}
		return out
	},
	Init: func() interface{} { return cacheOut{} },
	Step: func(state, input, output interface{}) (bool, interface{}) {
		in := input.(cacheOp)
		if in.Write {
			return true, cacheOut{Val: in.Val, Found: true}
		}
		return output.(cacheOut) == state.(cacheOut), state
	},
	Equal: func(a, b interface{}) bool { return a.(cacheOut) == b.(cacheOut) },
}

func c17CacheHistory(env *core.Env, idx, N int, res *core.CaseResult, wit map[string]interface{}) core.CaseResult {
	if N > 16 {
		N = 16 // many short histories beat one enormous one
	}
	cache := spec.VerifNewDefaultCache()
	keys := []string{"file:///k/a.json", "file:///k/b.json", "file:///k/c.json"}
	opsPer := 40
	hist := make([][]porcupine.Operation, N)
	t0 := time.Now()
	spec.VerifHooks.Yield = yieldNoShared
	var wg sync.WaitGroup
	start := make(chan struct{})
	for g := 0; g < N; g++ {
		wg.Add(1)
		go func(g int) {
			defer wg.Done()
			r := core.Rng(env.Seed, "C17/hist", idx*100+g)
			<-start
			for i := 0; i < opsPer; i++ {
				k := keys[r.Intn(len(keys))]
				if r.Intn(3) == 0 {
					v := fmt.Sprintf("g%d-%d", g, i) // unique per write
					call := time.Since(t0).Nanoseconds()
					cache.Set(k, v)
					ret := time.Since(t0).Nanoseconds()
					hist[g] = append(hist[g], porcupine.Operation{ClientId: g, Input: cacheOp{Key: k, Write: true, Val: v}, Call: call, Output: cacheOut{}, Return: ret})
				} else {
					call := time.Since(t0).Nanoseconds()
					v, ok := cache.Get(k)
					ret := time.Since(t0).Nanoseconds()
					s, _ := v.(string)
					hist[g] = append(hist[g], porcupine.Operation{ClientId: g, Input: cacheOp{Key: k}, Call: call, Output: cacheOut{Val: s, Found: ok}, Return: ret})
				}
			}
		}(g)
	}
	close(start)
	wg.Wait()
	var all []porcupine.Operation
	for _, h := range hist {
		all = append(all, h...)
	}
	res.Evals += len(all)
	res.Count("cache-history-operations", len(all))
	result := porcupine.CheckOperationsTimeout(cacheModel, all, 2*time.Minute)
	switch result {
	case porcupine.Illegal:
		var sample []string
		for i, op := range all {
			if i < 30 {
				sample = append(sample, fmt.Sprintf("%d:%+v->%+v[%d,%d]", op.ClientId, op.Input, op.Output, op.Call, op.Return))
			}
		}
		wit["history_head"] = sample
		res.Violate("cache-history-not-linearizable", fmt.Sprintf("%d Get/Set operations of %d goroutines on the default cache admit no linearisation against a per-key register", len(all), N), wit)
	case porcupine.Unknown:
		res.Inconcl = "linearizability checker timed out"
	default:
		res.Count("cache-histories-linearizable", 1)
	}
	res.NonTrivial = true
	if n, sigs := theRaceLog.newReports(); n > 0 {
		for _, s := range sigs {
			res.Violate("data-race [cache-history] "+s, fmt.Sprintf("%d race reports", n), wit)
		}
		if len(sigs) == 0 {
			res.Violate("data-race [cache-history] (outside the package frames)", fmt.Sprintf("%d race reports", n), wit)
		}
	}
	return *res
}

// ---- cold start: the lazy initialisation can only race once per process

// c17ColdStart re-executes this binary; the child releases 16 goroutines from a barrier straight into the package.
func c17ColdStart(env *core.Env, k int) core.CaseResult {
	var res core.CaseResult
	res.Count("workload.cold-start", 1)
	res.Hash = fmt.Sprintf("cold-start/%d", k)
	res.NonTrivial = true
	res.Sample = map[string]interface{}{"workload": "cold-start", "goroutines": 16, "child": k}
	exe, err := os.Executable()
	if err != nil {
		res.Inconcl = err.Error()
		return res
	}
	logBase := filepath.Join(env.Workdir, fmt.Sprintf("coldrace-%d-%d", os.Getpid(), k))
	cmd := exec.Command(exe, "--coldstart", fmt.Sprint(env.Seed*100000+int64(k)))
	cmd.Env = append(os.Environ(), "GORACE=halt_on_error=0 log_path="+logBase, "VERIF_ROOT="+verifRootDir())
	var out bytes.Buffer
	cmd.Stdout = &out
	cmd.Stderr = &out
	done := make(chan error, 1)
	if err := cmd.Start(); err != nil {
		res.Inconcl = err.Error()
		return res
	}
	go func() { done <- cmd.Wait() }()
	core.WaitingForChild.Add(1)
	defer core.WaitingForChild.Add(-1)
	var werr error
	select {
	case werr = <-done:
	case <-time.After(120 * time.Second):
		_ = cmd.Process.Kill()
		<-done
		res.Violate("hang [cold-start]", "the cold-start child did not finish within 120 s: "+core.Abbrev(out.String(), 500), map[string]interface{}{"child_seed": k})
		return res
	}
	res.Evals += 16
	wit := map[string]interface{}{"workload": "cold-start", "child_seed": env.Seed*100000 + int64(k), "output": core.Abbrev(out.String(), 1500)}
	matches, _ := filepath.Glob(logBase + ".*")
	nrace := 0
	sigs := map[string]bool{}
	for _, m := range matches {
		b, _ := os.ReadFile(m)
		nrace += strings.Count(string(b), "WARNING: DATA RACE")
		for _, blk := range strings.Split(string(b), "WARNING: DATA RACE")[1:] {
			var frames []string
			for _, line := range strings.Split(blk, "\n") {
				line = strings.TrimSpace(line)
				if strings.HasPrefix(line, "github.com/go-openapi/spec.") {
					f := line
					if i := strings.LastIndex(f, "("); i > 0 {
						f = f[:i]
					}
					frames = append(frames, strings.TrimPrefix(f, "github.com/go-openapi/spec."))
				}
			}
			if len(frames) > 4 {
				frames = frames[:4]
			}
			sigs[strings.Join(frames, " | ")] = true
		}
		_ = os.Remove(m)
	}
	for s := range sigs {
		res.Violate("data-race [cold-start] "+s, fmt.Sprintf("%d race reports in a fresh process", nrace), wit)
	}
	if nrace > 0 && len(sigs) == 0 {
		res.Violate("data-race [cold-start] (outside the package frames)", fmt.Sprintf("%d race reports", nrace), wit)
	}
	if werr != nil {
		res.Violate("cold-start child failed: "+errClass(fmt.Errorf("%s", firstLine(out.String()))), out.String(), wit)
	}
	return res
}

func firstLine(s string) string {
	if i := strings.Index(s, "\n"); i >= 0 {
		return s[:i]
	}
	return s
}

// ColdStartChild is the body of `vcheck --coldstart <seed>`: 16 goroutines go straight into the package from a barrier.
func ColdStartChild(seed int64) int {
	spec.VerifHooks.Step, spec.VerifHooks.Resolved = nil, nil
	spec.VerifHooks.Yield = yieldNoShared
	// nothing of the package may run before the barrier (no warm-up): the expectation comes from the pinned file, parsed generically
	pb, err := os.ReadFile(filepath.Join(verifRootDir(), "oracle-data", "jsonschema-draft-04.json"))
	if err != nil {
		fmt.Println("pinned meta-schema unreadable:", err)
		return 3
	}
	pinned, err := oracle.Parse(pb)
	if err != nil {
		fmt.Println("pinned meta-schema unparsable:", err)
		return 3
	}
	want, _ := oracle.EvalPointer(pinned, "/definitions/positiveInteger")
	const n = 16
	fails := make([]string, n)
	var wg sync.WaitGroup
	start := make(chan struct{})
	for g := 0; g < n; g++ {
		wg.Add(1)
		go func(g int) {
			defer wg.Done()
			defer func() {
				if r := recover(); r != nil {
					fails[g] = fmt.Sprint("panic: ", r)
				}
			}()
			<-start
			switch (g + int(seed)) % 4 {
			case 0:
				ref := spec.MustCreateRef("http://json-schema.org/draft-04/schema#/definitions/positiveInteger")
				s, err := spec.ResolveRefWithBase(nil, &ref, nil)
				if err != nil {
					fails[g] = err.Error()
					return
				}
				if gn, _ := oracle.Norm(s); !oracle.Equal(gn, want) {
					fails[g] = "built-in meta-schema resolved to " + oracle.Text(gn)
				}
			case 1:
				s := spec.RefSchema("http://swagger.io/v2/schema.json#/definitions/info")
				if err := spec.ExpandSchema(s, nil, nil); err != nil {
					fails[g] = err.Error()
				} else if s.Ref.String() != "" || len(s.Properties) == 0 {
					fails[g] = "info definition not expanded"
				}
			case 2:
				c := spec.VerifNewDefaultCache()
				if _, ok := c.Get("http://swagger.io/v2/schema.json"); !ok {
					fails[g] = "fresh default cache lacks the swagger meta-schema"
				}
			default:
				// decoding and encoding independent documents
				text := []byte(`{"title":"t","type":"object","allOf":[{"title":"a"}],"properties":{"p":{"type":"string","x-order":1}},"x-a":1,"unknown":2}`)
				for i := 0; i < 5; i++ {
					s := new(spec.Schema)
					if err := json.Unmarshal(text, s); err != nil {
						fails[g] = err.Error()
						return
					}
					b, err := json.Marshal(s)
					if err != nil {
						fails[g] = err.Error()
						return
					}
					s2 := new(spec.Schema)
					_ = json.Unmarshal(b, s2)
					b2, _ := json.Marshal(s2)
					if !bytes.Equal(b, b2) || oracle.Scan(b).Duplicate != "" {
						fails[g] = "round trip under concurrency is not stable: " + string(b)
						return
					}
				}
			}
		}(g)
	}
	close(start)
	wg.Wait()
	rc := 0
	for g, f := range fails {
		if f != "" {
			fmt.Printf("goroutine %d: %s\n", g, f)
			rc = 1
		}
	}
	return rc
}

func init() {
	floors := []string{"references-computed-after-the-first-concurrent-pass", "world-with-null-document", "workload.distinct-documents", "workload.shared-cache", "workload.shared-document", "workload.cache-history", "workload.cold-start",
		"cases-with-overlap", "yield-events", "cache-histories-linearizable", "cache-history-operations"}
	for _, n := range []int{2, 4, 8, 16, 64} {
		floors = append(floors, fmt.Sprintf("goroutines.%d", n))
	}
	for _, n := range []int{1, 2, 4, 16} {
		floors = append(floors, fmt.Sprintf("gomaxprocs.%d", n))
	}
	core.Register(&core.Property{
		ID:    "C17",
		Level: "exploration",
		Rule: "race-detector build; N in {2,4,8,16,64} goroutines x GOMAXPROCS in {1,2,4,16} released from a barrier into: (a) ExpandSpec/ExpandSchemaWithBasePath/ResolveRefWithBase on distinct generated worlds (no cache or one each), " +
			"(b) expansion of the same documents through one shared cache, (c) json.Marshal and pointer lookups on a shared never-mutated document, (d) Get/Set histories on the default cache checked with porcupine against a per-key register " +
			"(unique value per write); plus cold-start children (fresh process, 16 goroutines straight into the lazy initialisation). Each workload runs twice: hooks without shared memory (race verdict), then with a recorder (overlap, interleaving signatures). " +
			"violation = a DATA RACE block in the race log, a fatal crash or confirmed hang, an answer different from the one the call gives alone, a non-linearizable history. non-trivial = >= 2 goroutines observed inside the package at once",
		NumCases:      c17NumCases,
		Run:           c17Run,
		Floors:        func(env *core.Env) []string { return floors },
		Race:          true,
		MaxWorkers:    4,
		ChunkSize:     8,
		ChunkTimeoutS: 240,
		Assumptions: []string{"the Go race detector only reports races on executions that happen; repetitions, yields at hook H3 and varied GOMAXPROCS widen what happens",
			"race reports are read from the runtime's log file after the goroutines of a case are joined; exit codes are not trusted",
			"a checker time-out of porcupine (2 min) is inconclusive, never a violation"},
	})
}

func mustJSON(v interface{}) []byte {
	b, _ := json.Marshal(v)
	return b
}
