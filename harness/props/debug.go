package props

import (
	"encoding/json"
	"fmt"
	"os"
	"strings"

	"github.com/go-openapi/spec"

	"verifharness/gen"
	"verifharness/oracle"
)

// DebugExpand re-runs ExpandSpec on the documents of a witness file with the package's debug log on.
func DebugExpand(path string, verbose bool) {
	b, err := os.ReadFile(path)
	if err != nil {
		fmt.Println(err)
		return
	}
	var w struct {
		Witness struct {
			Root      string                 `json:"root"`
			Documents map[string]interface{} `json:"documents"`
			Options   string                 `json:"options"`
		} `json:"witness"`
	}
	if err := json.Unmarshal(b, &w); err != nil {
		fmt.Println(err)
		return
	}
	var o expandOpts
	fmt.Sscanf(w.Witness.Options, "skip=%t continue=%t absolute=%t", &o.Skip, &o.Continue, &o.Absolute)
	world := &gen.World{Docs: w.Witness.Documents, Root: w.Witness.Root, Features: map[string]int{}}
	spec.Debug = verbose
	o.KeepResolutions = true
	r := runExpandSpec(world, o)
	spec.Debug = false
	fmt.Println("options:", o.String())
	fmt.Println("err:", r.Err, "panic:", r.Panic, "steps:", r.Steps)
	for _, q := range r.Requests {
		fmt.Println("load:", q)
	}
	for _, q := range r.Res {
		fmt.Printf("resolved: %+v\n", q)
	}
	if r.Out != nil {
		ob, _ := json.MarshalIndent(r.Out, "", " ")
		fmt.Println(string(ob))
	}
}

// Shrink greedily minimises the documents of a witness while the same kind of failure still shows
// (in every one of 5 runs, so that map-order dependent failures are not chased).
func Shrink(path string) {
	b, err := os.ReadFile(path)
	if err != nil {
		fmt.Println(err)
		return
	}
	var w struct {
		Class   string `json:"class"`
		Witness struct {
			Root      string                 `json:"root"`
			Documents map[string]interface{} `json:"documents"`
			Options   string                 `json:"options"`
			Refuses   []string               `json:"loader_refuses"`
		} `json:"witness"`
	}
	if err := json.Unmarshal(b, &w); err != nil {
		fmt.Println(err)
		return
	}
	var o expandOpts
	fmt.Sscanf(w.Witness.Options, "skip=%t continue=%t absolute=%t", &o.Skip, &o.Continue, &o.Absolute)
	o.Refuse = map[string]bool{}
	for _, u := range w.Witness.Refuses {
		o.Refuse[u] = true
	}
	docs := w.Witness.Documents
	contMode := len(w.Class) > 13 && w.Class[:13] == "continue-mode"
	wantErr := len(w.Class) > 8 && w.Class[:8] == "spurious"
	fails := func() bool {
		world := &gen.World{Docs: docs, Root: w.Witness.Root, Features: map[string]int{}}
		in := oworld(world)
		for u := range o.Refuse {
			delete(in.Docs, u)
		}
		starts := oracle.SpecStarts(in, world.Root, true)
		refs, _ := in.Reachable(starts, o.Skip)
		for _, r := range refs {
			if !r.Resolvable && !contMode {
				return false
			}
		}
		for i := 0; i < 3; i++ {
			r := runExpandSpec(world, o)
			if r.Panic != "" {
				return false
			}
			if contMode {
				if r.Err != nil {
					return false
				}
				outW := withRoot(in, world.Root, r.Out)
				bad := false
				for _, st := range starts {
					if m := oracle.BisimilarOpts(in, st.St, outW, st.St, st.Kind, oracle.BisimOpts{UnresByText: true, WildcardNonSchemaUnres: true}); m != nil {
						if strings.Contains(w.Class, "not left verbatim") == strings.Contains(m.Reason, "not left verbatim") {
							bad = true
						}
					}
				}
				if !bad {
					return false
				}
				continue
			}
			if wantErr {
				if r.Err == nil {
					return false
				}
				continue
			}
			if r.Err != nil {
				return false
			}
			mm, _ := monitorMeaning(in, world.Root, r.Out, !o.Skip)
			if len(mm) == 0 {
				return false
			}
		}
		return true
	}
	if !fails() {
		fmt.Println("does not fail reliably (5/5); not shrinking")
		return
	}
	changed := true
	for changed {
		changed = false
		// drop whole documents
		for u := range docs {
			if u == w.Witness.Root {
				continue
			}
			save := docs[u]
			delete(docs, u)
			if fails() {
				changed = true
			} else {
				docs[u] = save
			}
		}
		// drop members / elements
		var try func(v interface{}) bool
		try = func(v interface{}) bool {
			switch x := v.(type) {
			case map[string]interface{}:
				for k, sub := range x {
					delete(x, k)
					if fails() {
						return true
					}
					x[k] = sub
					if try(sub) {
						return true
					}
				}
			case []interface{}:
				for i := range x {
					save := x[i]
					x[i] = map[string]interface{}{"title": "shrunk", "description": "shrunk"}
					if !oracle.Equal(save, x[i]) && fails() {
						return true
					}
					x[i] = save
					if try(save) {
						return true
					}
				}
			}
			return false
		}
		// top-level elements first (cheap), deep members only once nothing else goes
		topChanged := false
		for _, d := range docs {
			dm, _ := d.(map[string]interface{})
			for sec, sv := range dm {
				sm, ok := sv.(map[string]interface{})
				if !ok {
					continue
				}
				for name, el := range sm {
					delete(sm, name)
					if fails() {
						topChanged = true
					} else {
						sm[name] = el
					}
				}
				_ = sec
			}
		}
		if topChanged {
			changed = true
			continue
		}
		if os.Getenv("SHRINK_DEEP") != "" {
			for _, d := range docs {
				for try(d) {
					changed = true
				}
			}
		}
	}
	out, _ := json.MarshalIndent(map[string]interface{}{"root": w.Witness.Root, "documents": docs, "options": o.String(), "class": w.Class}, "", " ")
	fmt.Println(string(out))
}
