package props

import (
	"encoding/json"
	"fmt"
	"os"

	"github.com/go-openapi/spec"

	"verifharness/gen"
	"verifharness/oracle"
)

// DebugExpand re-runs ExpandSpec on the documents of a witness file with the package's debug log on.
func DebugExpand(path string, verbose bool) {
	b, err := os.ReadFile(path)
	if err != nil {
		fmt.Println(err)
		return
	}
	var w struct {
		Witness struct {
			Root      string                 `json:"root"`
			Documents map[string]interface{} `json:"documents"`
			Options   string                 `json:"options"`
		} `json:"witness"`
	}
	if err := json.Unmarshal(b, &w); err != nil {
		fmt.Println(err)
		return
	}
	var o expandOpts
	fmt.Sscanf(w.Witness.Options, "skip=%t continue=%t absolute=%t", &o.Skip, &o.Continue, &o.Absolute)
	world := &gen.World{Docs: w.Witness.Documents, Root: w.Witness.Root, Features: map[string]int{}}
	spec.Debug = verbose
	o.KeepResolutions = true
	r := runExpandSpec(world, o)
	spec.Debug = false
	fmt.Println("options:", o.String())
	fmt.Println("err:", r.Err, "panic:", r.Panic, "steps:", r.Steps)
	for _, q := range r.Requests {
		fmt.Println("load:", q)
	}
	for _, q := range r.Res {
		fmt.Printf("resolved: %+v\n", q)
	}
	if r.Out != nil {
		ob, _ := json.MarshalIndent(r.Out, "", " ")
		fmt.Println(string(ob))
	}
}

// Shrink greedily minimises the documents of a witness while the same kind of failure still shows
// (in every one of 5 runs, so that map-order dependent failures are not chased).
func Shrink(path string) {
	b, err := os.ReadFile(path)
	if err != nil {
		fmt.Println(err)
		return
	}
	var w struct {
		Class   string `json:"class"`
		Witness struct {
			Root      string                 `json:"root"`
			Documents map[string]interface{} `json:"documents"`
			Options   string                 `json:"options"`
		} `json:"witness"`
	}
	if err := json.Unmarshal(b, &w); err != nil {
		fmt.Println(err)
		return
	}
	var o expandOpts
	fmt.Sscanf(w.Witness.Options, "skip=%t continue=%t absolute=%t", &o.Skip, &o.Continue, &o.Absolute)
	docs := w.Witness.Documents
	wantErr := len(w.Class) > 8 && w.Class[:8] == "spurious"
	fails := func() bool {
		world := &gen.World{Docs: docs, Root: w.Witness.Root, Features: map[string]int{}}
		in := oworld(world)
		starts := oracle.SpecStarts(in, world.Root, true)
		refs, _ := in.Reachable(starts, o.Skip)
		for _, r := range refs {
			if !r.Resolvable {
				return false
			}
		}
		for i := 0; i < 5; i++ {
			r := runExpandSpec(world, o)
			if r.Panic != "" {
				return false
			}
			if wantErr {
				if r.Err == nil {
					return false
				}
				continue
			}
			if r.Err != nil {
				return false
			}
			mm, _ := monitorMeaning(in, world.Root, r.Out, !o.Skip)
			if len(mm) == 0 {
				return false
			}
		}
		return true
	}
	if !fails() {
		fmt.Println("does not fail reliably (5/5); not shrinking")
		return
	}
	changed := true
	for changed {
		changed = false
		// drop whole documents
		for u := range docs {
			if u == w.Witness.Root {
				continue
			}
			save := docs[u]
			delete(docs, u)
			if fails() {
				changed = true
			} else {
				docs[u] = save
			}
		}
		// drop members / elements
		var try func(v interface{}) bool
		try = func(v interface{}) bool {
			switch x := v.(type) {
			case map[string]interface{}:
				for k, sub := range x {
					delete(x, k)
					if fails() {
						return true
					}
					x[k] = sub
					if try(sub) {
						return true
					}
				}
			case []interface{}:
				for i := range x {
					save := x[i]
					x[i] = map[string]interface{}{"title": "shrunk", "description": "shrunk"}
					if !oracle.Equal(save, x[i]) && fails() {
						return true
					}
					x[i] = save
					if try(save) {
						return true
					}
				}
			}
			return false
		}
		for _, d := range docs {
			for try(d) {
				changed = true
			}
		}
	}
	out, _ := json.MarshalIndent(map[string]interface{}{"root": w.Witness.Root, "documents": docs, "options": o.String(), "class": w.Class}, "", " ")
	fmt.Println(string(out))
}
