package props

import (
	"encoding/json"
	"fmt"
	"net/url"
	"strings"

	"github.com/go-openapi/spec"

	"verifharness/core"
	"verifharness/oracle"
)

// C12 — $ref targets are located as RFC 3986 reference resolution prescribes.

var (
	c12Symbols = []string{"a", "b.json", ".", "..", "c%20d", "é", "UP", "p+q", "~t", "m%2541n", "..x", "..."}
	c12Files   = []string{"b.json", "c%20d.json", "é.json", "UP.JSON", "r%2520s.v2.json", "..draft.json", "...json"}
	c12BasesQ  = []string{"file:///w/a/root.json", "file:///root.json", "file:///w/a/b/c/root.json", "http://h.example/d/e.json",
		"http://h.example:8080/x/y/z.json", "https://s.example/spec.json", "https://s.example/a/b/spec.json", "file:///w/v1/api"}
	c12BasesT = append(append([]string{}, c12BasesQ...), "file:///w/sp%20ace/root.json", "file:///w/é/root.json", "http://h.example/a/../b/e.json",
		"https://s.example:8443/a/b/c/d/spec.json", "file:///a/root.json", "http://127.0.0.1/r.json", "http://h.example/d.v2/e.json", "http://h.example/v1/api")
	c12Hosts = []string{"http://other.example/", "file:///"}
	c12Frags = []string{"", "#/definitions/x", "#/a~1b/c%20d"}
)

const c12Batch = 64

func c12MaxSeg(env *core.Env) int {
	if env.Thorough() {
		return 4
	}
	return 3
}

func c12Bases(env *core.Env) []string {
	if env.Thorough() {
		return c12BasesT
	}
	return c12BasesQ
}

// paths of up to maxSeg segments, the last one a file name
func c12PathCount(maxSeg int) int {
	n, pow := 0, 1
	for l := 1; l <= maxSeg; l++ {
		n += pow * len(c12Files)
		pow *= len(c12Symbols)
	}
	return n
}

func c12Path(i, maxSeg int) string {
	pow := 1
	for l := 1; l <= maxSeg; l++ {
		cnt := pow * len(c12Files)
		if i < cnt {
			segs := make([]string, l)
			segs[l-1] = c12Files[i%len(c12Files)]
			i /= len(c12Files)
			for k := l - 2; k >= 0; k-- {
				segs[k] = c12Symbols[i%len(c12Symbols)]
				i /= len(c12Symbols)
			}
			return strings.Join(segs, "/")
		}
		i -= cnt
		pow *= len(c12Symbols)
	}
	panic("path index out of range")
}

// enumerated pair space: path x kind(relative, root-relative, 2 absolute hosts) x fragment x base
func c12Total(env *core.Env) int {
	return c12PathCount(c12MaxSeg(env)) * 4 * len(c12Frags) * len(c12Bases(env))
}

func c12Pair(env *core.Env, i int) (base, ref string) {
	bases := c12Bases(env)
	base = bases[i%len(bases)]
	i /= len(bases)
	frag := c12Frags[i%len(c12Frags)]
	i /= len(c12Frags)
	kind := i % 4
	i /= 4
	p := c12Path(i, c12MaxSeg(env))
	switch kind {
	case 0:
		ref = p
	case 1:
		ref = "/" + p
	default:
		ref = c12Hosts[kind-2] + p
	}
	return base, ref + frag
}

func c12RandomCount(env *core.Env) int {
	if env.Thorough() {
		return 4000
	}
	return 320
}

func c12NumCases(env *core.Env) int {
	return (c12Total(env)+c12Batch-1)/c12Batch + c12RandomCount(env) + 3
}

// c12Twins lists locations that differ from base in one component only (port, host, scheme, directory, file name).
func c12Twins(base string) map[string]string {
	out := map[string]string{}
	u, _ := url.Parse(base)
	mk := func(f func(v *url.URL)) string {
		v := *u
		f(&v)
		return v.String()
	}
	if u.Scheme != "file" {
		out["other-port"] = mk(func(v *url.URL) { v.Host = v.Hostname() + ":9090" })
		out["other-host"] = mk(func(v *url.URL) {
			if v.Port() != "" {
				v.Host = "twin.example:" + v.Port()
			} else {
				v.Host = "twin.example"
			}
		})
		out["other-scheme"] = mk(func(v *url.URL) { v.Scheme = map[string]string{"http": "https", "https": "http"}[v.Scheme] })
	}
	out["other-directory"] = mk(func(v *url.URL) {
		i := strings.LastIndex(v.Path, "/")
		v.Path, v.RawPath = v.Path[:i]+"/twin"+v.Path[i:], ""
	})
	out["other-file-name"] = mk(func(v *url.URL) { v.Path, v.RawPath = v.Path+"2", "" })
	return out
}

// c12Containing: a fragment-only reference designates the document that contains it, also when that document was reached by a
// reference from a document that differs from it in one URL component only and has a namesake of the target.
func c12Containing(res *core.CaseResult, a, kind, b string) {
	docA := fmt.Sprintf(`{"swagger":"2.0","info":{"title":"t","version":"1"},"paths":{},"definitions":{"entry":{"$ref":%q},"b":{"title":"b of the referring document"}}}`, b+"#/definitions/a")
	docB := `{"definitions":{"a":{"$ref":"#/definitions/b"},"b":{"title":"b of the containing document"}}}`
	var reqs []string
	loader := func(u string) (json.RawMessage, error) {
		reqs = append(reqs, u)
		switch {
		case oracle.SameURL(u, b):
			return json.RawMessage(docB), nil
		case oracle.SameURL(u, a):
			return json.RawMessage(docA), nil
		}
		return nil, fmt.Errorf("no document at %s", u)
	}
	wit := map[string]interface{}{"referring_document": a, "containing_document": b, "differs_in": kind}
	for _, entry := range []string{"ExpandSpec", "ExpandSchemaWithBasePath"} {
		reqs = nil
		var title string
		var err error
		var pan string
		if entry == "ExpandSpec" {
			sw := new(spec.Swagger)
			_ = json.Unmarshal([]byte(docA), sw)
			err, pan = guard(func() error { return spec.ExpandSpec(sw, &spec.ExpandOptions{RelativeBase: a, PathLoader: loader}) })
			title = sw.Definitions["entry"].Title
		} else {
			// through a first hop into the referring document, from a third location
			s := spec.RefSchema(a + "#/definitions/entry")
			err, pan = guard(func() error {
				return spec.ExpandSchemaWithBasePath(s, nil, &spec.ExpandOptions{RelativeBase: "file:///c12/start.json", PathLoader: loader})
			})
			title = s.Title
		}
		res.Evals++
		res.Count("containing-document."+kind, 1)
		wit["entry"], wit["requests"] = entry, append([]string{}, reqs...)
		switch {
		case pan != "" || err != nil:
			res.Violate("containing-document: "+entry+" fails ("+kind+")", fmt.Sprintf("%v %s", err, pan), wit)
		case title != "b of the containing document":
			res.Violate("fragment-only reference read in another document than the one that contains it ("+kind+")", fmt.Sprintf("%s: \"#/definitions/b\" written in %s resolved to %q", entry, b, title), wit)
		}
	}
}

func c12Check(res *core.CaseResult, base, ref string) {
	wit := map[string]interface{}{"base": base, "ref": ref}
	wantDoc, wantFrag, err := oracle.Resolve(base, ref)
	if err != nil {
		res.Count("outside-domain(unparsable)", 1)
		return
	}
	r, err := spec.NewRef(ref)
	if err != nil {
		res.Count("outside-domain(unparsable)", 1)
		return
	}
	var requests []string
	loader := func(u string) (json.RawMessage, error) {
		requests = append(requests, u)
		return json.RawMessage(`{"definitions":{"x":{"title":"t"}},"a/b":{"c d":{"title":"u"}}}`), nil
	}
	_, pan := guard(func() error {
		_, e := spec.ResolveRefWithBase(nil, &r, &spec.ExpandOptions{RelativeBase: base, PathLoader: loader})
		return e
	})
	res.Evals++
	if pan != "" {
		res.Violate("panic ResolveRefWithBase", pan, wit)
		return
	}
	wit["requests"] = requests
	wit["rfc3986_target"] = wantDoc
	if len(requests) != 1 {
		res.Violate(fmt.Sprintf("loader-requests=%d (expected exactly one)", len(requests)), fmt.Sprintf("%q against %q: %v", ref, base, requests), wit)
	} else if !sameLocation(requests[0], wantDoc) {
		res.Violate("wrong-document-requested "+c12RefClass(ref), fmt.Sprintf("%q against %q: loader asked for %q, RFC 3986 gives %q", ref, base, requests[0], wantDoc), wit)
	}
	// the normaliser itself, fragment carried over
	// (the package only ever hands normalizeURI a base it has canonicalised before)
	got := spec.VerifNormalizeURI(ref, spec.VerifNormalizeBase(base))
	gu, gerr := url.Parse(got)
	if gerr != nil {
		res.Violate("normalizeURI-unparsable-result", got, wit)
		return
	}
	gf := gu.Fragment
	gu.Fragment, gu.RawFragment = "", ""
	if !sameLocation(gu.String(), wantDoc) || gf != wantFrag {
		res.Violate("normalizeURI-disagrees-with-RFC3986 "+c12RefClass(ref), fmt.Sprintf("normalizeURI(%q, %q) = %q, RFC 3986 gives %q fragment %q", ref, base, got, wantDoc, wantFrag), wit)
	}
	res.Evals++
	if strings.Contains(ref, "..") || strings.Contains(ref, "./") || strings.Contains(ref, "%") || strings.Contains(ref, "é") {
		res.Count("nontrivial", 1)
	}
	if strings.HasPrefix(ref, "#") || ref == "" {
		res.Count("kind.fragment-only-or-empty", 1)
	} else if strings.Contains(ref, "://") {
		res.Count("kind.absolute", 1)
	} else if strings.HasPrefix(ref, "/") {
		res.Count("kind.root-relative", 1)
	} else {
		res.Count("kind.relative", 1)
	}
}

func c12RefClass(ref string) string {
	switch {
	case strings.HasPrefix(ref, "#") || ref == "":
		return "(fragment-only)"
	case strings.Contains(ref, "://"):
		return "(absolute)"
	case strings.HasPrefix(ref, "/"):
		return "(root-relative)"
	}
	return "(relative)"
}

// sameLocation compares two document URLs up to escaping normalisation.
func sameLocation(a, b string) bool {
	ua, err1 := url.Parse(a)
	ub, err2 := url.Parse(b)
	if err1 != nil || err2 != nil {
		return a == b
	}
	return strings.EqualFold(ua.Scheme, ub.Scheme) && strings.EqualFold(ua.Host, ub.Host) && ua.Path == ub.Path && ua.RawQuery == ub.RawQuery && ua.Fragment == ub.Fragment
}

func c12Run(env *core.Env, idx int) core.CaseResult {
	var res core.CaseResult
	nEnum := (c12Total(env) + c12Batch - 1) / c12Batch
	var pairs [][2]string
	switch {
	case idx < nEnum:
		for i := idx * c12Batch; i < (idx+1)*c12Batch && i < c12Total(env); i++ {
			b, r := c12Pair(env, i)
			pairs = append(pairs, [2]string{b, r})
		}
		res.Count("part.enumerated", len(pairs))
	case idx == nEnum:
		// fragment-only and empty references designate the containing document
		for _, b := range c12Bases(env) {
			for _, r := range []string{"", "#", "#/definitions/x", "#/a~1b/c%20d"} {
				pairs = append(pairs, [2]string{b, r})
			}
		}
		res.Count("part.fragment-only", len(pairs))
	case idx == nEnum+1:
		// references spelled with the trailing segments of the base itself: they still resolve against the base's directory
		for _, b := range c12BasesT {
			bu, _ := url.Parse(b)
			segs := strings.Split(strings.TrimPrefix(bu.EscapedPath(), "/"), "/")
			for k := 1; k <= len(segs); k++ {
				tail := strings.Join(segs[len(segs)-k:], "/")
				for _, f := range c12Frags {
					pairs = append(pairs, [2]string{b, tail + f}, [2]string{b, "./" + tail + f})
				}
			}
		}
		res.Count("part.tail-of-base", len(pairs))
	case idx == nEnum+2:
		// fragment-only references inside a document reached from a near-twin location
		n := 0
		for _, a := range c12BasesT {
			if strings.Contains(a, "/../") {
				continue // documents are served under their canonical location
			}
			tw := c12Twins(a)
			for _, kind := range []string{"other-port", "other-host", "other-scheme", "other-directory", "other-file-name"} {
				if b, ok := tw[kind]; ok {
					c12Containing(&res, a, kind, b)
					c12Containing(&res, b, kind, a)
					n++
				}
			}
		}
		res.Count("part.containing-document-after-a-hop", n)
		res.Count("nontrivial", 1)
	default:
		rng := core.Rng(env.Seed, "C12", idx)
		bases := c12BasesT
		for k := 0; k < c12Batch; k++ {
			n := 1 + rng.Intn(8)
			segs := make([]string, n)
			for i := 0; i < n-1; i++ {
				segs[i] = c12Symbols[rng.Intn(len(c12Symbols))]
			}
			segs[n-1] = c12Files[rng.Intn(len(c12Files))]
			p := strings.Join(segs, "/")
			switch rng.Intn(4) {
			case 1:
				p = "/" + p
			case 2:
				p = c12Hosts[rng.Intn(2)] + p
			case 3:
				p = "./" + p
			}
			pairs = append(pairs, [2]string{bases[rng.Intn(len(bases))], p + c12Frags[rng.Intn(len(c12Frags))]})
		}
		res.Count("part.random", len(pairs))
	}
	for _, p := range pairs {
		c12Check(&res, p[0], p[1])
	}
	res.Hash = core.HashOf(pairs)
	res.NonTrivial = res.Cover["nontrivial"] > 0
	if len(pairs) > 3 {
		res.Sample = pairs[:3]
	} else {
		res.Sample = pairs
	}
	return res
}

func init() {
	core.Register(&core.Property{
		ID:    "C12",
		Level: "exploration",
		Rule: "every reference of <= 3 (thorough: 4) path segments over a 12-symbol alphabet (plain, dotted, '.', '..', names that merely begin with two dots, percent-escaped, non-ASCII, upper-case, '+', '~'), last segment a file name, written relative, root-relative or absolute (2 hosts), " +
			"with 3 fragment shapes, against 7 (thorough: 14) file/http/https bases at depth 0-3 - enumerated completely - plus fragment-only/empty references, references spelled with the trailing segments of the base, and seeded random longer ones; case = batch of 64 pairs. " +
			"monitor: the recording loader of ResolveRefWithBase(nil, ref, {RelativeBase: base}) is asked exactly once, for net/url's RFC 3986 resolution of ref against base without fragment; normalizeURI (hook H5) agrees, fragment carried over. " +
			"plus: a document A that refers into a near twin B of its own location (other port, host, scheme, directory or file name) whose target is a fragment-only $ref with a namesake in A - through ExpandSpec and through a first hop from a third location - must read it in B. " +
			"non-trivial = batch has a dot segment, escape or non-ASCII reference",
		NumCases: c12NumCases,
		Run:      c12Run,
		Floors: func(env *core.Env) []string {
			return []string{"part.enumerated", "part.fragment-only", "part.tail-of-base", "part.containing-document-after-a-hop", "part.random", "kind.relative", "kind.root-relative", "kind.absolute", "kind.fragment-only-or-empty", "nontrivial"}
		},
		Exhaustive: func(env *core.Env) bool { return true },
		Assumptions: []string{"domain: references made of a file path whose last segment is a file name, optional fragment; no query, no network-path (//host) reference, no %2F, no trailing '/', '.' or '..'",
			"URLs are compared up to escaping normalisation (scheme and host case-insensitively, decoded path)"},
	})
}
