package props

import (
	"bytes"
	"encoding/json"
	"fmt"
	"sort"
	"strings"

	"github.com/go-openapi/spec"

	"verifharness/core"
	"verifharness/gen"
	"verifharness/oracle"
)

// C08 — expansion never fails silently (fault enumeration: loader refusals on subsets of the external documents,
// planted dangling pointers, missing documents and ill-typed targets; strict and continue-on-error modes).

func c08NumCases(env *core.Env) int {
	if env.Thorough() {
		return 25000
	}
	return 4000
}

func c08World(env *core.Env, idx int) *gen.World {
	if idx%400 == 3 {
		// chains whose consecutive hops carry the same relative text in different directories: every hop is a document the loader may refuse
		return sameTextChainWorld(idx / 400)
	}
	rng := core.Rng(env.Seed, "C08", idx)
	o := gen.WorldOpts{}
	o.NDocs = 1 + rng.Intn(5)
	o.Cyclic = rng.Intn(2) == 0
	o.Nested = rng.Intn(2) == 0
	o.Chains = rng.Intn(3) == 0
	o.HostileNames = rng.Intn(4) == 0
	o.HTTP = rng.Intn(3) == 0
	o.Elements = 1 + rng.Intn(3)
	o.MaxDepth = 1 + rng.Intn(2)
	o.RefDensity = []float64{0.3, 0.5, 0.7}[rng.Intn(3)]
	o.WholeDoc = rng.Intn(3) == 0
	if idx%3 != 0 {
		// planted faults (the other third has loader faults only)
		o.Dangling = []float64{0, 0.08, 0.2}[rng.Intn(3)]
		o.IllTyped = []float64{0, 0.08, 0.15}[rng.Intn(3)]
		o.MissingDoc = []float64{0, 0.05, 0.1}[rng.Intn(3)]
		if idx%6 == 1 {
			o.HollowDoc = 0.15
		}
	}
	return gen.GenWorld(rng, o)
}

func subsetsOf(ext []string, rngSeed int64) [][]string {
	n := len(ext)
	var out [][]string
	if n <= 4 {
		for mask := 0; mask < 1<<uint(n); mask++ {
			var s []string
			for i := 0; i < n; i++ {
				if mask&(1<<uint(i)) != 0 {
					s = append(s, ext[i])
				}
			}
			out = append(out, s)
		}
		return out
	}
	out = append(out, nil)
	for i := 0; i < n; i++ {
		out = append(out, []string{ext[i]})
		for j := i + 1; j < n; j++ {
			out = append(out, []string{ext[i], ext[j]})
		}
	}
	r := core.Rng(rngSeed, "C08/subsets", n)
	for k := 0; k < 32; k++ {
		var s []string
		for i := 0; i < n; i++ {
			if r.Intn(2) == 0 {
				s = append(s, ext[i])
			}
		}
		out = append(out, s)
	}
	return out
}

func c08Run(env *core.Env, idx int) core.CaseResult {
	var res core.CaseResult
	w := c08World(env, idx)
	res.Hash = core.HashOf(w.Docs)
	var ext []string
	for u := range w.Docs {
		if u != w.Root {
			ext = append(ext, u)
		}
	}
	sort.Strings(ext)
	subsets := subsetsOf(ext, env.Seed)
	if len(ext) <= 4 {
		res.Count("worlds-with-all-subsets-enumerated", 1)
	}
	full := oworld(w)
	sawFaultAndHealthy := false
	for _, S := range subsets {
		refuse := map[string]bool{}
		in := &oracle.OWorld{Docs: map[string]interface{}{}}
		for u, d := range full.Docs {
			in.Docs[u] = d
		}
		for _, u := range S {
			refuse[u] = true
			delete(in.Docs, u)
		}
		starts := oracle.SpecStarts(in, w.Root, true)
		refs, _ := in.Reachable(starts, false)
		bad, good := 0, 0
		kinds := map[string]bool{}
		for _, r := range refs {
			if r.Resolvable {
				good++
				continue
			}
			bad++
			switch {
			case r.IllTyped:
				kinds["ill-typed"] = true
			default:
				if _, ok := in.Docs[r.Target.Doc]; !ok {
					if refuse[r.Target.Doc] {
						kinds["loader-refusal"] = true
					} else {
						kinds["missing-document"] = true
					}
				} else {
					kinds["dangling-pointer"] = true
				}
			}
			res.Count("fault-holder."+r.Kind, 1)
		}
		for k := range kinds {
			res.Count("fault."+k, 1)
		}
		if bad > 0 && good > 0 {
			sawFaultAndHealthy = true
		}
		expectErr := bad > 0
		for _, cont := range []bool{false, true} {
			o := expandOpts{Continue: cont, Refuse: refuse}
			r := runExpandSpec(w, o)
			res.Evals++
			wit := worldWitness(w, o, map[string]interface{}{"loader_refuses": S, "unresolvable_reachable_refs": bad})
			if r.Panic != "" {
				res.Violate(fmt.Sprintf("panic (continue=%v): %s", cont, errClass(fmt.Errorf("%s", r.Panic))), r.Panic, wit)
				continue
			}
			if r.OptionsChanged != "" {
				res.Violate("caller-options-modified", r.OptionsChanged, wit)
			}
			if !cont {
				res.Count("mode.strict", 1)
				switch {
				case expectErr && r.Err == nil:
					res.Violate("silent-failure: nil error although a reachable $ref is unresolvable ("+joinKeys(kinds)+")",
						fmt.Sprintf("%d reachable $refs are unresolvable, e.g. %s", bad, firstBad(refs)), wit)
				case !expectErr && r.Err != nil:
					res.Violate("spurious-error: "+errClass(r.Err), "every reachable $ref is resolvable, yet: "+r.Err.Error(), wit)
				}
				if expectErr {
					res.Count("strict.error-expected", 1)
				} else {
					res.Count("strict.no-error-expected", 1)
				}
				continue
			}
			res.Count("mode.continue", 1)
			if r.Err != nil {
				res.Violate("continue-on-error returned an error: "+errClass(r.Err), r.Err.Error(), wit)
				continue
			}
			outW := withRoot(in, w.Root, r.Out)
			seen := map[string]bool{}
			for _, st := range starts {
				m := oracle.BisimilarOpts(in, st.St, outW, st.St, st.Kind, oracle.BisimOpts{UnresByText: true, WildcardNonSchemaUnres: true})
				if m == nil {
					continue
				}
				cl := "continue-mode " + mismatchClass(fmt.Sprintf("%s %s%s: %s (input", st.Kind, st.St.Ptr, m.Path, m.Reason))
				if m.Via != "" {
					cl = "continue-mode " + st.Kind + ": unresolvable $ref not left verbatim"
					// attribution: the verbatim text, once it sits in the root document, designates an existing object when read from the
					// root's directory (same file name in two directories): a later local reference to the expanded element re-reads it there
					if t, err := oracle.RefTarget(w.Root, m.Via); err == nil {
						if n, ok := in.Lookup(t); ok {
							if _, isObj := n.(map[string]interface{}); isObj {
								cl = "continue-mode: verbatim unresolvable $ref re-read from the root's directory, where the same text designates another document"
							}
						}
					}
				}
				if seen[cl] {
					continue
				}
				seen[cl] = true
				wit["output"] = r.Out
				res.Violate(cl, fmt.Sprintf("%s %s%s: %s (input %s, output %s)", st.Kind, st.St.Ptr, m.Path, m.Reason, m.A, m.B), wit)
			}
			if expectErr {
				res.Count("continue.with-faults", 1)
			}
		}
	}
	// an unresolvable $ref is an error every time, also when the same (caller-supplied) cache has already seen the failure
	if root, ok := full.Docs[w.Root].(map[string]interface{}); ok && len(ext) > 0 {
		if defs, ok := root["definitions"].(map[string]interface{}); ok {
			var names []string
			for k := range defs {
				names = append(names, k)
			}
			sort.Strings(names)
			refuse := map[string]bool{}
			for _, u := range ext {
				refuse[u] = true
			}
			for _, elem := range names {
				cache := spec.VerifNewDefaultCache()
				first := c18Expand(w, elem, cache, refuse, false)
				second := c18Expand(w, elem, cache, refuse, false)
				res.Evals += 2
				res.Count("repeated-failure-with-shared-cache", 1)
				if first.pan == "" && first.err != nil && second.pan == "" && second.err == nil {
					res.Violate("silent-failure: error reported once, nil error when the same cache is used again",
						fmt.Sprintf("first call: %v; second call with the same cache and the same refusing loader: nil", first.err),
						worldWitness(w, expandOpts{}, map[string]interface{}{"entry": "ExpandSchemaWithBasePath", "element": elem, "loader_refuses": ext}))
				}
			}
		}
	}
	if n := w.Features["fault.hollow-document"]; n > 0 {
		res.Count("fault.hollow-document", n)
	}
	if n := w.Features["fault.dangling-pointer(near-miss)"]; n > 0 {
		res.Count("fault.dangling-pointer(near-miss)", n)
	}
	c08SecondRoot(env, idx, &res)
	if idx < 8 {
		c08IDScope(idx, &res)
	}
	res.NonTrivial = sawFaultAndHealthy
	res.Sample = map[string]interface{}{"documents": len(w.Docs), "ref_holders": w.Slots, "fault_subsets": len(subsets), "planted": map[string]int{
		"dangling": w.Features["fault.dangling-pointer"], "ill-typed": w.Features["fault.ill-typed"], "missing-doc": w.Features["fault.missing-document"]}}
	return res
}

// refTexts collects the $ref texts found in v.
func refTexts(v interface{}, out map[string]bool) {
	switch x := v.(type) {
	case map[string]interface{}:
		for k, w := range x {
			if s, ok := w.(string); ok && k == "$ref" {
				out[s] = true
				continue
			}
			refTexts(w, out)
		}
	case []interface{}:
		for _, w := range x {
			refTexts(w, out)
		}
	}
}

// c08SecondRoot: the entry points that take an in-memory root and a cache, called for two roots with one cache. The second root is the
// first without one definition D; an element X that refers to D is expanded against both, in both orders. Against the root that lacks D
// the call must fail, against the complete root it must not - whatever the cache has seen before.
func c08SecondRoot(env *core.Env, idx int, res *core.CaseResult) {
	rng := core.Rng(env.Seed, "C08/second-root", idx)
	w := gen.GenWorld(rng, gen.WorldOpts{NDocs: 1, FragmentOnly: true, Cyclic: rng.Intn(2) == 0, Nested: rng.Intn(3) == 0, Elements: 2 + rng.Intn(2), MaxDepth: 1 + rng.Intn(2), RefDensity: 0.6})
	rootJ, _ := oworld(w).Docs[w.Root].(map[string]interface{})
	defs, _ := rootJ["definitions"].(map[string]interface{})
	type pick struct{ section, name, d string }
	var picks []pick
	for _, section := range []string{"definitions", "parameters", "responses"} {
		sec, _ := rootJ[section].(map[string]interface{})
		var names []string
		for k := range sec {
			names = append(names, k)
		}
		sort.Strings(names)
		for _, n := range names {
			if el, _ := sec[n].(map[string]interface{}); el == nil || el["$ref"] != nil {
				continue // the element itself is a $ref holder: the entry point would be handed a chain
			}
			texts := map[string]bool{}
			refTexts(sec[n], texts)
			for _, t := range sortedStrings(texts) {
				d := strings.TrimPrefix(t, "#/definitions/")
				if d == t || strings.Contains(d, "/") || (section == "definitions" && d == n) {
					continue
				}
				if _, ok := defs[d]; ok {
					picks = append(picks, pick{section, n, d})
				}
			}
		}
	}
	if len(picks) == 0 {
		return
	}
	pk := picks[rng.Intn(len(picks))]
	full, _ := json.Marshal(rootJ)
	delete(defs, pk.d)
	lacking, _ := json.Marshal(rootJ)
	local := "#/" + pk.section + "/" + gen.FragmentEscape(pk.name)
	mkRoot := func(text []byte, typed bool) interface{} {
		if typed {
			sw := new(spec.Swagger)
			_ = json.Unmarshal(text, sw)
			return sw
		}
		var g interface{}
		_ = json.Unmarshal(text, &g)
		return g
	}
	call := func(root interface{}, cache spec.ResolutionCache) (error, string) {
		return guard(func() error {
			switch pk.section {
			case "definitions":
				return spec.ExpandSchema(spec.RefSchema(local), root, cache)
			case "parameters":
				return spec.ExpandParameterWithRoot(spec.ParamRef(local), root, cache)
			}
			return spec.ExpandResponseWithRoot(spec.ResponseRef(local), root, cache)
		})
	}
	entry := map[string]string{"definitions": "ExpandSchema", "parameters": "ExpandParameterWithRoot", "responses": "ExpandResponseWithRoot"}[pk.section]
	for _, typed := range []bool{true, false} {
		for _, order := range []string{"complete-then-lacking", "lacking-then-complete"} {
			cache := spec.VerifNewDefaultCache()
			texts := [][]byte{full, lacking}
			if order == "lacking-then-complete" {
				texts = [][]byte{lacking, full}
			}
			for step, text := range texts {
				err, pan := call(mkRoot(text, typed), cache)
				res.Evals++
				res.Count("second-root-with-shared-cache", 1)
				wit := map[string]interface{}{"entry": entry, "element": local, "removed_definition": pk.d, "order": order, "step": step, "typed_root": typed,
					"complete_root": json.RawMessage(full), "lacking_root": json.RawMessage(lacking)}
				lacks := bytes.Equal(text, lacking)
				switch {
				case pan != "":
					res.Violate("panic "+entry+" (second root, shared cache)", pan, wit)
				case lacks && err == nil:
					res.Violate("silent-failure: "+entry+" against a root that lacks the target (cache shared with another root)", fmt.Sprintf("%s refers to #/definitions/%s, which this root does not have; step %d of %s returned nil", local, pk.d, step, order), wit)
				case !lacks && err != nil:
					res.Violate("spurious-error: "+entry+" against a complete root (cache shared with another root)", fmt.Sprintf("step %d of %s: %v", step, order, err), wit)
				}
			}
		}
	}
}

// c08IDScope: a schema that carries an id and, next to it, a relative $ref. The id opens the scope the $ref is read in (JSON Schema
// draft 4), so whether the $ref is resolvable is decided at the id's location, not next to the containing document.
func c08IDScope(k int, res *core.CaseResult) {
	id := []string{"http://ids.example/c08/dir/", "http://ids.example/c08/dir/self.json", "sub/", "sub/self.json"}[k%4]
	inScope := k/4 == 0 // the target exists in the id scope only / next to the containing document only
	scopeDoc := map[bool]string{true: "http://ids.example/c08/dir/item.json", false: "file:///w/a/sub/item.json"}[k%4 < 2]
	parentDoc := "file:///w/a/item.json"
	item := func(t string) interface{} {
		return map[string]interface{}{"definitions": map[string]interface{}{"it": map[string]interface{}{"title": t, "type": "object"}}}
	}
	w := &gen.World{Root: gen.RootURL, Features: map[string]int{}, Docs: map[string]interface{}{
		gen.RootURL: map[string]interface{}{"swagger": "2.0", "info": map[string]interface{}{"title": "t", "version": "1"}, "paths": map[string]interface{}{},
			"definitions": map[string]interface{}{"scoped": map[string]interface{}{"id": id, "$ref": "item.json#/definitions/it"}}}}}
	if inScope {
		w.Docs[scopeDoc] = item("item in the id scope")
	} else {
		w.Docs[parentDoc] = item("item next to the containing document")
	}
	for _, cont := range []bool{false, true} {
		o := expandOpts{Continue: cont}
		r := runExpandSpec(w, o)
		res.Evals++
		res.Count("id-scoped-sibling-ref", 1)
		wit := worldWitness(w, o, map[string]interface{}{"id": id, "target_exists_in_id_scope": inScope, "requests": r.Requests})
		scoped, _ := oracle.EvalPointer(r.Out, "/definitions/scoped")
		sm, _ := scoped.(map[string]interface{})
		switch {
		case r.Panic != "":
			res.Violate("panic (id-scoped $ref)", r.Panic, wit)
		case inScope && r.Err != nil:
			res.Violate("spurious-error: a $ref next to an id is resolvable in the scope of that id", r.Err.Error(), wit)
		case inScope && (sm == nil || sm["title"] != "item in the id scope"):
			res.Violate("id-scoped $ref not expanded from the id scope", oracle.Text(scoped), wit)
		case !inScope && !cont && r.Err == nil:
			res.Violate("silent-failure: a $ref next to an id designates nothing in the scope of that id", "nil error; /definitions/scoped = "+core.Abbrev(oracle.Text(scoped), 200), wit)
		case !inScope && cont && (r.Err != nil || sm == nil || sm["$ref"] != "item.json#/definitions/it"):
			res.Violate("continue-mode: unresolvable $ref next to an id not left verbatim", fmt.Sprintf("err=%v /definitions/scoped = %s", r.Err, core.Abbrev(oracle.Text(scoped), 200)), wit)
		}
	}
}

func joinKeys(m map[string]bool) string {
	ks := sortedStrings(m)
	s := ""
	for i, k := range ks {
		if i > 0 {
			s += ","
		}
		s += k
	}
	return s
}

func firstBad(refs []oracle.RefInfo) string {
	for _, r := range refs {
		if !r.Resolvable {
			return fmt.Sprintf("%s holds %q", r.Holder, r.Text)
		}
	}
	return ""
}

func init() {
	core.Register(&core.Property{
		ID:    "C08",
		Level: "fault_enumeration",
		Rule: "G-WORLD worlds with planted dangling pointers, missing documents and ill-typed (string/number/boolean/array) targets at every holder kind; per world the loader refuses every subset of the external documents " +
			"(all 2^k subsets for k<=4, else singletons, pairs and 32 random subsets), each in strict and continue-on-error mode. strict: error iff some reachable $ref (containment + resolvable refs from the root's sections) is unresolvable; " +
			"continue: no error, unresolvable schema $refs verbatim, everything else bisimilar to the input. dangling pointers include near misses (undeclared status code, one past the end of a list, absent name) and pointers into documents whose content is null. " +
			"plus: ExpandSchema/ExpandParameterWithRoot/ExpandResponseWithRoot against a root and the same root minus a referenced definition, both orders, one shared cache, typed and generic roots. non-trivial = some fault on a reachable $ref and some reachable $ref unaffected; distinct by world",
		NumCases: c08NumCases,
		Run:      c08Run,
		Floors: func(env *core.Env) []string {
			return []string{"fault.loader-refusal", "fault.missing-document", "fault.dangling-pointer", "fault.ill-typed", "fault-holder.schema", "fault-holder.parameter",
				"fault-holder.response", "fault-holder.pathItem", "strict.error-expected", "strict.no-error-expected", "continue.with-faults", "worlds-with-all-subsets-enumerated", "repeated-failure-with-shared-cache", "second-root-with-shared-cache", "fault.dangling-pointer(near-miss)", "fault.hollow-document", "id-scoped-sibling-ref"}
		},
		Exhaustive: func(env *core.Env) bool { return false },
		Assumptions: []string{"the loader never refuses the root document itself",
			"under continue-on-error, parameter/response/path-item holders of an unresolvable $ref are wildcards (the statement speaks of schema $refs only)",
			"fault subsets are enumerated completely per world with <= 4 external documents; the worlds themselves are sampled"},
	})
}
