package props

import (
	"encoding/json"
	"fmt"
	"math/rand"
	"reflect"
	"sort"

	"github.com/go-openapi/spec"

	"verifharness/core"
	"verifharness/oracle"
)

// C20 — validation accessors are lossless, clear operations exact.
//
// Reference model: a flat map keyword -> value and four disjoint families; everything the
// real carriers do is compared with the same operation on the map.

var c20Common = []string{"maximum", "exclusiveMaximum", "minimum", "exclusiveMinimum", "maxLength", "minLength",
	"pattern", "maxItems", "minItems", "uniqueItems", "multipleOf", "enum"}
var c20Object = []string{"maxProperties", "minProperties", "patternProperties"}

var c20Family = map[string]string{
	"maximum": "number", "exclusiveMaximum": "number", "minimum": "number", "exclusiveMinimum": "number", "multipleOf": "number",
	"maxLength": "string", "minLength": "string", "pattern": "string",
	"maxItems": "array", "minItems": "array", "uniqueItems": "array",
	"maxProperties": "object", "minProperties": "object", "patternProperties": "object",
	"enum": "",
}

// which keywords make the Has<Family>Validations query true (booleans modifying a bound do not count for numbers)
var c20HasKeys = map[string][]string{
	"number": {"maximum", "minimum", "multipleOf"},
	"string": {"maxLength", "minLength", "pattern"},
	"array":  {"maxItems", "minItems", "uniqueItems"},
	"object": {"maxProperties", "minProperties", "patternProperties"},
}

type c20Carrier interface {
	name() string
	keywords() []string
	families() []string // families with a clear operation
	set(v spec.SchemaValidations)
	get() spec.SchemaValidations
	clear(family string, cbs ...func(string, interface{}))
	has(family string) (bool, bool) // value, supported
	jsonValue() interface{}
}

func c20JSON(v interface{}) interface{} {
	b, err := json.Marshal(v)
	if err != nil {
		return "marshal error: " + err.Error()
	}
	g, err := oracle.Parse(b)
	if err != nil {
		return "parse error: " + err.Error()
	}
	return g
}

type c20Param struct{ p *spec.Parameter }

func (c c20Param) name() string                 { return "parameter" }
func (c c20Param) keywords() []string           { return c20Common }
func (c c20Param) families() []string           { return []string{"number", "string", "array"} }
func (c c20Param) set(v spec.SchemaValidations) { c.p.SetValidations(v) }
func (c c20Param) get() spec.SchemaValidations  { return c.p.Validations() }
func (c c20Param) jsonValue() interface{}       { return c20JSON(c.p) }
func (c c20Param) clear(f string, cbs ...func(string, interface{})) {
	switch f {
	case "number":
		c.p.ClearNumberValidations(cbs...)
	case "string":
		c.p.ClearStringValidations(cbs...)
	case "array":
		c.p.ClearArrayValidations(cbs...)
	}
}
func (c c20Param) has(f string) (bool, bool) {
	switch f {
	case "number":
		return c.p.HasNumberValidations(), true
	case "string":
		return c.p.HasStringValidations(), true
	case "array":
		return c.p.HasArrayValidations(), true
	}
	return false, false
}

type c20Header struct{ p *spec.Header }

func (c c20Header) name() string                 { return "header" }
func (c c20Header) keywords() []string           { return c20Common }
func (c c20Header) families() []string           { return []string{"number", "string", "array"} }
func (c c20Header) set(v spec.SchemaValidations) { c.p.SetValidations(v) }
func (c c20Header) get() spec.SchemaValidations  { return c.p.Validations() }
func (c c20Header) jsonValue() interface{}       { return c20JSON(c.p) }
func (c c20Header) clear(f string, cbs ...func(string, interface{})) {
	switch f {
	case "number":
		c.p.ClearNumberValidations(cbs...)
	case "string":
		c.p.ClearStringValidations(cbs...)
	case "array":
		c.p.ClearArrayValidations(cbs...)
	}
}
func (c c20Header) has(f string) (bool, bool) {
	switch f {
	case "number":
		return c.p.HasNumberValidations(), true
	case "string":
		return c.p.HasStringValidations(), true
	case "array":
		return c.p.HasArrayValidations(), true
	}
	return false, false
}

type c20Items struct{ p *spec.Items }

func (c c20Items) name() string                 { return "items" }
func (c c20Items) keywords() []string           { return c20Common }
func (c c20Items) families() []string           { return []string{"number", "string", "array"} }
func (c c20Items) set(v spec.SchemaValidations) { c.p.SetValidations(v) }
func (c c20Items) get() spec.SchemaValidations  { return c.p.Validations() }
func (c c20Items) jsonValue() interface{}       { return c20JSON(c.p) }
func (c c20Items) clear(f string, cbs ...func(string, interface{})) {
	switch f {
	case "number":
		c.p.ClearNumberValidations(cbs...)
	case "string":
		c.p.ClearStringValidations(cbs...)
	case "array":
		c.p.ClearArrayValidations(cbs...)
	}
}
func (c c20Items) has(f string) (bool, bool) {
	switch f {
	case "number":
		return c.p.HasNumberValidations(), true
	case "string":
		return c.p.HasStringValidations(), true
	case "array":
		return c.p.HasArrayValidations(), true
	}
	return false, false
}

// the schema validation set itself: the only carrier with all four families
type c20SV struct{ p *spec.SchemaValidations }

func (c c20SV) name() string                 { return "schema-validations" }
func (c c20SV) keywords() []string           { return append(append([]string{}, c20Common...), c20Object...) }
func (c c20SV) families() []string           { return []string{"number", "string", "array", "object"} }
func (c c20SV) set(v spec.SchemaValidations) { c.p.SetValidations(v) }
func (c c20SV) get() spec.SchemaValidations  { return c.p.Validations() }
func (c c20SV) jsonValue() interface{}       { return c20JSON(c.p) }
func (c c20SV) clear(f string, cbs ...func(string, interface{})) {
	switch f {
	case "number":
		c.p.ClearNumberValidations(cbs...)
	case "string":
		c.p.ClearStringValidations(cbs...)
	case "array":
		c.p.ClearArrayValidations(cbs...)
	case "object":
		c.p.ClearObjectValidations(cbs...)
	}
}
func (c c20SV) has(f string) (bool, bool) {
	switch f {
	case "number":
		return c.p.HasNumberValidations(), true
	case "string":
		return c.p.HasStringValidations(), true
	case "array":
		return c.p.HasArrayValidations(), true
	case "object":
		return c.p.HasObjectValidations(), true
	}
	return false, false
}

// the schema: accessors only (the model has no clear operation on Schema)
type c20Schema struct{ p *spec.Schema }

func (c c20Schema) name() string                                 { return "schema" }
func (c c20Schema) keywords() []string                           { return append(append([]string{}, c20Common...), c20Object...) }
func (c c20Schema) families() []string                           { return nil }
func (c c20Schema) set(v spec.SchemaValidations)                 { c.p.SetValidations(v) }
func (c c20Schema) get() spec.SchemaValidations                  { return c.p.Validations() }
func (c c20Schema) jsonValue() interface{}                       { return c20JSON(c.p) }
func (c c20Schema) clear(string, ...func(string, interface{}))   {}
func (c c20Schema) has(string) (bool, bool)                      { return false, false }

// c20Flatten reads a validation set into the flat model (direct field access, no library accessor).
func c20Flatten(v spec.SchemaValidations) map[string]interface{} {
	m := map[string]interface{}{}
	if v.Maximum != nil {
		m["maximum"] = *v.Maximum
	}
	if v.ExclusiveMaximum {
		m["exclusiveMaximum"] = true
	}
	if v.Minimum != nil {
		m["minimum"] = *v.Minimum
	}
	if v.ExclusiveMinimum {
		m["exclusiveMinimum"] = true
	}
	if v.MaxLength != nil {
		m["maxLength"] = *v.MaxLength
	}
	if v.MinLength != nil {
		m["minLength"] = *v.MinLength
	}
	if v.Pattern != "" {
		m["pattern"] = v.Pattern
	}
	if v.MaxItems != nil {
		m["maxItems"] = *v.MaxItems
	}
	if v.MinItems != nil {
		m["minItems"] = *v.MinItems
	}
	if v.UniqueItems {
		m["uniqueItems"] = true
	}
	if v.MultipleOf != nil {
		m["multipleOf"] = *v.MultipleOf
	}
	if v.Enum != nil {
		m["enum"] = fmt.Sprint(v.Enum...)
	}
	if v.MaxProperties != nil {
		m["maxProperties"] = *v.MaxProperties
	}
	if v.MinProperties != nil {
		m["minProperties"] = *v.MinProperties
	}
	if v.PatternProperties != nil {
		var ks []string
		for k := range v.PatternProperties {
			ks = append(ks, k)
		}
		sort.Strings(ks)
		m["patternProperties"] = fmt.Sprint(ks)
	}
	return m
}

// c20Deref turns a callback value (pointer or plain) into the model value.
func c20Deref(keyword string, v interface{}) interface{} {
	switch x := v.(type) {
	case *float64:
		if x == nil {
			return nil
		}
		return *x
	case *int64:
		if x == nil {
			return nil
		}
		return *x
	case spec.SchemaProperties:
		var ks []string
		for k := range x {
			ks = append(ks, k)
		}
		sort.Strings(ks)
		return fmt.Sprint(ks)
	}
	return v
}

func c20Build(rng *rand.Rand, keywords []string, mask int, variant int) spec.SchemaValidations {
	var v spec.SchemaValidations
	f := func(i int) *float64 {
		var x float64
		switch variant {
		case 0:
			x = 0
		case 1:
			x = float64(i) + 1.5
		default:
			x = []float64{0, -1, 1e-9, 3, 1e15, -0.5}[rng.Intn(6)]
		}
		return &x
	}
	n := func(i int) *int64 {
		var x int64
		switch variant {
		case 0:
			x = 0
		case 1:
			x = int64(i) + 1
		default:
			x = []int64{0, 1, 7, 1 << 40}[rng.Intn(4)]
		}
		return &x
	}
	for i, k := range keywords {
		if mask&(1<<uint(i)) == 0 {
			continue
		}
		switch k {
		case "maximum":
			v.Maximum = f(i)
		case "exclusiveMaximum":
			v.ExclusiveMaximum = true
		case "minimum":
			v.Minimum = f(i)
		case "exclusiveMinimum":
			v.ExclusiveMinimum = true
		case "maxLength":
			v.MaxLength = n(i)
		case "minLength":
			v.MinLength = n(i)
		case "pattern":
			v.Pattern = "^p[0-9]+$"
		case "maxItems":
			v.MaxItems = n(i)
		case "minItems":
			v.MinItems = n(i)
		case "uniqueItems":
			v.UniqueItems = true
		case "multipleOf":
			v.MultipleOf = f(i)
		case "enum":
			v.Enum = []interface{}{"a", float64(variant), nil}
		case "maxProperties":
			v.MaxProperties = n(i)
		case "minProperties":
			v.MinProperties = n(i)
		case "patternProperties":
			if variant == 0 {
				v.PatternProperties = spec.SchemaProperties{}
			} else {
				v.PatternProperties = spec.SchemaProperties{"^x": *spec.StringProperty()}
			}
		}
	}
	return v
}

func c20NewCarrier(kind int) c20Carrier {
	switch kind {
	case 0:
		p := spec.QueryParam("q").Typed("string", "").WithDescription("other")
		p.AddExtension("x-keep", "1")
		return c20Param{p}
	case 1:
		h := spec.ResponseHeader().Typed("integer", "int32").WithDescription("other")
		return c20Header{h}
	case 2:
		it := spec.NewItems().Typed("string", "byte")
		it.CollectionFormat = "csv"
		return c20Items{it}
	case 3:
		return c20SV{&spec.SchemaValidations{}}
	default:
		s := spec.StringProperty().WithTitle("other").WithDescription("d")
		s.Required = []string{"r"}
		s.AddExtension("x-keep", true)
		return c20Schema{s}
	}
}

var c20Perms = map[int][][]int{}

func perms(n int) [][]int {
	if p, ok := c20Perms[n]; ok {
		return p
	}
	var out [][]int
	var rec func(cur []int, used int)
	rec = func(cur []int, used int) {
		if len(cur) == n {
			out = append(out, append([]int{}, cur...))
			return
		}
		for i := 0; i < n; i++ {
			if used&(1<<uint(i)) == 0 {
				rec(append(cur, i), used|1<<uint(i))
			}
		}
	}
	rec(nil, 0)
	c20Perms[n] = out
	return out
}

func c20Others(j interface{}) interface{} {
	m, ok := j.(map[string]interface{})
	if !ok {
		return j
	}
	o := map[string]interface{}{}
	for k, v := range m {
		if _, isVal := c20Family[k]; !isVal {
			o[k] = v
		}
	}
	return o
}

// case layout: [0,3*4096) common carriers; then 32768 schema-validations; then 32768 schema.
func c20Decode(idx int) (kind, mask int) {
	if idx < 3*4096 {
		return idx / 4096, idx % 4096
	}
	idx -= 3 * 4096
	if idx < 32768 {
		return 3, idx
	}
	return 4, idx - 32768
}

func c20Run(env *core.Env, idx int) core.CaseResult {
	var res core.CaseResult
	kind, mask := c20Decode(idx)
	rng := core.Rng(env.Seed, "C20", idx)
	variants := []int{0, 1}
	if env.Thorough() {
		variants = []int{0, 1, 2, 3, 4, 5, 6, 7}
	}
	proto := c20NewCarrier(kind)
	kws := proto.keywords()
	fams := map[string]bool{}
	nk := 0
	for i, k := range kws {
		if mask&(1<<uint(i)) != 0 {
			nk++
			fams[c20Family[k]] = true
		}
	}
	res.NonTrivial = nk >= 2 && len(fams) >= 2
	res.Hash = fmt.Sprintf("%s/%d", proto.name(), mask)
	res.Sample = map[string]interface{}{"carrier": proto.name(), "subset_mask": mask, "keywords_set": nk}
	witness := func(variant int, order []string, ncb int) interface{} {
		return map[string]interface{}{"carrier": proto.name(), "mask": mask, "variant": variant, "clear_order": order, "callbacks": ncb,
			"validations": c20Flatten(c20Build(core.Rng(env.Seed, "C20", idx), kws, mask, variant))}
	}
	for _, variant := range variants {
		v := c20Build(rng, kws, mask, variant)
		want := c20Flatten(v)
		// restrict to what the carrier supports
		supported := map[string]bool{}
		for _, k := range kws {
			supported[k] = true
		}
		for k := range want {
			if !supported[k] {
				delete(want, k)
			}
		}
		// (1) write then read back
		c := c20NewCarrier(kind)
		othersBefore := c20Others(c.jsonValue())
		c.set(v)
		res.Evals++
		res.Count("op.set", 1)
		got := c20Flatten(c.get())
		res.Count("op.get", 1)
		if !reflect.DeepEqual(got, want) {
			res.Violate("set-get-mismatch "+c.name()+" "+c20DiffKeys(want, got), fmt.Sprintf("wrote %v read %v", want, got), witness(variant, nil, 0))
		}
		if !oracle.Equal(othersBefore, c20Others(c.jsonValue())) {
			res.Violate("set touched non-validation field "+c.name(), fmt.Sprintf("%s -> %s", oracle.Text(othersBefore), oracle.Text(c20Others(c.jsonValue()))), witness(variant, nil, 0))
		}
		// (2) read then write back leaves the object unchanged
		before := c.jsonValue()
		c.set(c.get())
		res.Evals++
		if !oracle.Equal(before, c.jsonValue()) {
			res.Violate("get-set-not-identity "+c.name(), fmt.Sprintf("%s -> %s", oracle.Text(before), oracle.Text(c.jsonValue())), witness(variant, nil, 0))
		}
		if !reflect.DeepEqual(c20Flatten(c.get()), want) {
			res.Violate("get-set-not-identity "+c.name(), "validation set changed", witness(variant, nil, 0))
		}
		// (2b) a snapshot stays what it was: read, overwrite with a smaller set, write the snapshot back; and a set handed from one
		// object to another does not tie the two together. Expectations are deep copies taken before the writes.
		wantCopy, _ := oracle.Norm(want)
		snap := c.get()
		small := spec.SchemaValidations{}
		small.Enum = []interface{}{"verif-other-value"}
		c.set(small)
		if gotSmall, _ := oracle.Norm(c20Flatten(c.get())); !oracle.Equal(gotSmall, map[string]interface{}{"enum": func() interface{} { n, _ := oracle.Norm(c20Flatten(small)["enum"]); return n }()}) {
			res.Violate("overwrite-leaves-stale-validations "+c.name(), fmt.Sprintf("wrote a set holding a one-value enum only over an object that carried more; it reads back %s", core.Abbrev(oracle.Text(gotSmall), 200)), witness(variant, nil, 0))
		}
		c.set(snap)
		res.Evals++
		res.Count("op.snapshot-overwrite-restore", 1)
		if gotN, _ := oracle.Norm(c20Flatten(c.get())); !oracle.Equal(gotN, wantCopy) {
			res.Violate("snapshot-not-restored "+c.name(), fmt.Sprintf("read, overwrote with a one-value enum, wrote the snapshot back: %s instead of %s", core.Abbrev(oracle.Text(gotN), 200), core.Abbrev(oracle.Text(wantCopy), 200)), witness(variant, nil, 0))
		}
		src, dst := c20NewCarrier(kind), c20NewCarrier(kind)
		src.set(c20Build(core.Rng(env.Seed, "C20s", idx*16+variant), kws, mask, variant))
		srcBefore, _ := oracle.Norm(c20Flatten(src.get()))
		dst.set(src.get())
		dst.set(small)
		res.Evals++
		if srcAfter, _ := oracle.Norm(c20Flatten(src.get())); !oracle.Equal(srcBefore, srcAfter) {
			res.Violate("write-to-one-object-changes-another "+c.name(), fmt.Sprintf("%s -> %s", core.Abbrev(oracle.Text(srcBefore), 200), core.Abbrev(oracle.Text(srcAfter), 200)), witness(variant, nil, 0))
		}
		// (3) clear operations, all orders
		families := c.families()
		if len(families) == 0 {
			continue
		}
		for pi, perm := range perms(len(families)) {
			ncb := (idx + pi + variant) % 4
			cc := c20NewCarrier(kind)
			cc.set(c20Build(core.Rng(env.Seed, "C20v", idx*16+variant), kws, mask, variant))
			model := c20Flatten(cc.get())
			for k := range model {
				if !supported[k] {
					delete(model, k)
				}
			}
			var order []string
			for _, fi := range perm {
				order = append(order, families[fi])
			}
			others := c20Others(cc.jsonValue())
			for _, fam := range order {
				type call struct {
					k string
					v interface{}
				}
				calls := make([][]call, ncb)
				cbs := make([]func(string, interface{}), ncb)
				for i := 0; i < ncb; i++ {
					i := i
					cbs[i] = func(k string, v interface{}) {
						calls[i] = append(calls[i], call{k, c20Deref(k, v)})
						if i == 0 && (idx+pi)%3 == 0 {
							// a callback may itself clear validations of an unrelated object; that must not disturb this report
							other := spec.QueryParam("other").WithMinLength(3).WithPattern("x").WithMaxItems(2)
							other.MultipleOf = new(float64)
							other.ClearStringValidations(func(string, interface{}) {})
							other.ClearNumberValidations(func(string, interface{}) {})
							other.ClearArrayValidations(func(string, interface{}) {})
						}
					}
				}
				// expected removals
				expect := map[string]interface{}{}
				for k, val := range model {
					if c20Family[k] == fam {
						expect[k] = val
					}
				}
				cc.clear(fam, cbs...)
				res.Evals++
				res.Count("op.clear."+fam, 1)
				res.Count(fmt.Sprintf("callbacks.%d", ncb), 1)
				for k := range expect {
					delete(model, k)
				}
				got := c20Flatten(cc.get())
				for k := range got {
					if !supported[k] {
						delete(got, k)
					}
				}
				if !reflect.DeepEqual(got, model) {
					res.Violate("clear-"+fam+"-inexact "+cc.name()+" "+c20DiffKeys(model, got), fmt.Sprintf("expected %v after clear, got %v", model, got), witness(variant, order, ncb))
					model = got // resynchronise so that one defect is not reported again by the following clears
				}
				for i := 0; i < ncb; i++ {
					seen := map[string]int{}
					for _, cl := range calls[i] {
						seen[cl.k]++
						ev, ok := expect[cl.k]
						if !ok {
							res.Violate("clear-"+fam+"-reported-unset "+cc.name()+" "+cl.k, fmt.Sprintf("callback %d got %s=%v which was not set", i, cl.k, cl.v), witness(variant, order, ncb))
						} else if !reflect.DeepEqual(ev, cl.v) {
							res.Violate("clear-"+fam+"-wrong-previous-value "+cc.name()+" "+cl.k, fmt.Sprintf("callback %d got %s=%v, previous value was %v", i, cl.k, cl.v, ev), witness(variant, order, ncb))
						}
					}
					for k := range expect {
						if seen[k] != 1 {
							res.Violate("clear-"+fam+"-callback-count "+cc.name()+" "+k, fmt.Sprintf("callback %d of %d saw %s %d times", i, ncb, k, seen[k]), witness(variant, order, ncb))
						}
					}
				}
				if hv, ok := cc.has(fam); ok && hv {
					res.Violate("has-"+fam+"-true-after-clear "+cc.name(), "", witness(variant, order, ncb))
				}
				// the has queries of all families agree with the model
				for _, f2 := range families {
					wantHas := false
					for _, k := range c20HasKeys[f2] {
						if _, ok := model[k]; ok {
							wantHas = true
						}
					}
					if hv, ok := cc.has(f2); ok && hv != wantHas {
						res.Violate("has-"+f2+"-disagrees "+cc.name(), fmt.Sprintf("Has=%v model=%v after clearing %s (model %v)", hv, wantHas, fam, model), witness(variant, order, ncb))
					}
				}
				if !oracle.Equal(others, c20Others(cc.jsonValue())) {
					res.Violate("clear-"+fam+"-touched-other-field "+cc.name(), fmt.Sprintf("%s -> %s", oracle.Text(others), oracle.Text(c20Others(cc.jsonValue()))), witness(variant, order, ncb))
				}
			}
		}
	}
	res.Count("carrier."+proto.name(), 1)
	return res
}

func c20DiffKeys(want, got map[string]interface{}) string {
	var ks []string
	for k, v := range want {
		if g, ok := got[k]; !ok || !reflect.DeepEqual(g, v) {
			ks = append(ks, k)
		}
	}
	for k := range got {
		if _, ok := want[k]; !ok {
			ks = append(ks, "+"+k)
		}
	}
	sort.Strings(ks)
	if len(ks) > 3 {
		ks = ks[:3]
	}
	return fmt.Sprint(ks)
}

func init() {
	core.Register(&core.Property{
		ID:    "C20",
		Level: "exploration",
		Rule: "case = (carrier, subset of validation keywords): all 2^12 subsets on parameter/header/items, all 2^15 on the schema validation set and on schema; " +
			"each with zero and non-zero value assignments (thorough: 8), all orders of the clear operations (3!/4!), 0-3 callbacks; " +
			"non-trivial = subset has >=2 keywords from >=2 families; distinct by (carrier, subset)",
		NumCases: func(env *core.Env) int { return 3*4096 + 2*32768 },
		Run:      c20Run,
		Floors: func(env *core.Env) []string {
			return []string{"op.set", "op.get", "op.snapshot-overwrite-restore", "op.clear.number", "op.clear.string", "op.clear.array", "op.clear.object",
				"callbacks.0", "callbacks.1", "callbacks.2", "callbacks.3",
				"carrier.parameter", "carrier.header", "carrier.items", "carrier.schema-validations", "carrier.schema"}
		},
		Exhaustive: func(env *core.Env) bool { return true },
		Assumptions: []string{
			"Schema has no clear operations in the model; on schemas only the accessor laws are checked, the clear laws on the schema validation set",
			"value assignments are sampled (zero / non-zero / PRNG), subsets and clear orders are enumerated completely",
		},
	})
}
