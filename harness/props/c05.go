package props

import (
	"encoding/json"
	"fmt"
	"sort"

	"github.com/go-openapi/spec"

	"verifharness/core"
	"verifharness/gen"
	"verifharness/oracle"
)

// C05 — resolving a reference returns exactly the designated sub-document.

func c05NumCases(env *core.Env) int {
	if env.Thorough() {
		return 9000
	}
	return 1500
}

type c05Target struct {
	st   oracle.State
	kind string
}

// containedStates lists every element of a document reachable by containment (no $ref followed).
func containedStates(w *oracle.OWorld, doc string) []c05Target {
	var out []c05Target
	var visit func(st oracle.State, kind string)
	visit = func(st oracle.State, kind string) {
		node, ok := w.Lookup(st)
		if !ok {
			return
		}
		out = append(out, c05Target{st, kind})
		if _, isRef := oracle.RefOf(node); isRef {
			return
		}
		if kind == "parameter" {
			if m, ok := node.(map[string]interface{}); ok {
				if _, has := m["items"].(map[string]interface{}); has {
					out = append(out, c05Target{oracle.State{Doc: st.Doc, Ptr: st.Ptr + "/items"}, "items"})
				}
			}
		}
		_, ch := oracle.Split(node, st, kind)
		for _, c := range ch {
			visit(c.St, c.Kind)
		}
	}
	for _, s := range oracle.SpecStarts(w, doc, true) {
		visit(s.St, s.Kind)
	}
	return out
}

// codecOf pushes generic JSON through the codec of a kind: what a correct resolution must return.
func codecOf(kind string, d interface{}) (interface{}, error) {
	b, err := json.Marshal(d)
	if err != nil {
		return nil, err
	}
	v := newTyped(kind)
	if err := json.Unmarshal(b, v); err != nil {
		return nil, err
	}
	return oracle.Norm(v)
}

type c05Answer struct {
	val interface{}
	err error
	pan string
}

func (a c05Answer) String() string {
	switch {
	case a.pan != "":
		return "panic: " + a.pan
	case a.err != nil:
		return "error: " + a.err.Error()
	}
	return core.Abbrev(oracle.Text(a.val), 160)
}

func c05Resolve(kind string, root interface{}, ref *spec.Ref, opts *spec.ExpandOptions, withBase bool) (ans c05Answer) {
	defer func() {
		if r := recover(); r != nil {
			ans.pan = fmt.Sprint(r)
		}
	}()
	var v interface{}
	var err error
	switch kind {
	case "schema":
		if withBase {
			v, err = spec.ResolveRefWithBase(root, ref, opts)
		} else {
			v, err = spec.ResolveRef(root, ref)
		}
	case "parameter":
		if withBase {
			v, err = spec.ResolveParameterWithBase(root, *ref, opts)
		} else {
			v, err = spec.ResolveParameter(root, *ref)
		}
	case "response":
		if withBase {
			v, err = spec.ResolveResponseWithBase(root, *ref, opts)
		} else {
			v, err = spec.ResolveResponse(root, *ref)
		}
	case "pathItem":
		if withBase {
			v, err = spec.ResolvePathItemWithBase(root, *ref, opts)
		} else {
			v, err = spec.ResolvePathItem(root, *ref, opts)
		}
	case "items":
		if withBase {
			v, err = spec.ResolveItemsWithBase(root, *ref, opts)
		} else {
			v, err = spec.ResolveItems(root, *ref, opts)
		}
	}
	if err != nil {
		return c05Answer{err: err}
	}
	n, nerr := oracle.Norm(v)
	if nerr != nil {
		return c05Answer{err: nerr}
	}
	return c05Answer{val: n}
}

func c05Run(env *core.Env, idx int) core.CaseResult {
	var res core.CaseResult
	rng := core.Rng(env.Seed, "C05", idx)
	o := gen.WorldOpts{NDocs: 1 + rng.Intn(4), Cyclic: true, Nested: true, Chains: rng.Intn(3) == 0, HostileNames: true, HTTP: rng.Intn(2) == 0,
		Elements: 2 + rng.Intn(2), MaxDepth: 1 + rng.Intn(3), RefDensity: 0.35, Siblings: rng.Intn(3) == 0, WholeDoc: rng.Intn(3) == 0, PrefixDocs: idx%4 == 0}
	w := gen.GenWorld(rng, o)
	if idx%5 == 1 {
		w = gen.Relocate(w, "noext") // a root document whose file name has no extension
		res.Count("root-without-extension", 1)
	}
	// schemas that say nothing at all: "{}" as a definition, a property, a member of allOf and the items of an array
	// (a typed root holds them by value as zero structures; they are targets like any other)
	emptyTargets := []string{}
	if rd, ok := w.Docs[w.Root].(map[string]interface{}); ok {
		if defs, ok := rd["definitions"].(map[string]interface{}); ok {
			defs["c05-any"] = map[string]interface{}{}
			defs["c05-holder"] = map[string]interface{}{"title": "holder of empty schemas", "properties": map[string]interface{}{"e": map[string]interface{}{}},
				"allOf": []interface{}{map[string]interface{}{}}, "items": map[string]interface{}{}, "additionalProperties": map[string]interface{}{}}
			emptyTargets = []string{"/definitions/c05-any", "/definitions/c05-holder/properties/e", "/definitions/c05-holder/allOf/0", "/definitions/c05-holder/items", "/definitions/c05-holder/additionalProperties"}
		}
	}
	in := oworld(w)
	res.Hash = core.HashOf(w.Docs)
	var docs []string
	for u := range w.Docs {
		docs = append(docs, u)
	}
	sort.Strings(docs)
	var targets []c05Target
	for _, d := range docs {
		targets = append(targets, containedStates(in, d)...)
	}
	for _, d := range docs {
		// a document that is one schema is designated as a whole by a reference without fragment
		if dm, ok := in.Docs[d].(map[string]interface{}); ok {
			if _, isSpec := dm["definitions"]; !isSpec && d != w.Root {
				targets = append(targets, c05Target{oracle.State{Doc: d, Ptr: ""}, "schema"})
				res.Count("whole-document-target", 1)
			}
		}
	}
	rng.Shuffle(len(targets), func(i, j int) { targets[i], targets[j] = targets[j], targets[i] })
	if len(targets) > 60 {
		targets = targets[:60]
	}
	if len(emptyTargets) > 0 {
		for _, k := range rng.Perm(len(emptyTargets))[:2] {
			targets = append(targets, c05Target{oracle.State{Doc: w.Root, Ptr: emptyTargets[k]}, "schema"})
			res.Count("empty-schema-target", 1)
		}
	}
	rootText, _ := json.Marshal(w.Docs[w.Root])
	nontrivial := 0
	for _, t := range targets {
		toks, _ := oracle.PointerTokens(t.st.Ptr)
		forms := []string{"abs", "rel", "rootrel", "dotrel"}
		if t.st.Doc == w.Root {
			forms = []string{"fragment", "fragment", "samefile", "abs"}
		}
		form := forms[rng.Intn(len(forms))]
		// fault variants: dangling pointer, dangling document
		fault := ""
		tdoc := t.st.Doc
		switch rng.Intn(8) {
		case 0:
			toks = append(append([]string{}, toks...), "nowhere")
			fault = "dangling-pointer"
		case 2:
			// a pointer through a keyword the target does not carry (a typed root yields nothing there, without a lookup error)
			if node, ok := in.Lookup(t.st); ok && t.kind == "schema" {
				if nm, isObj := node.(map[string]interface{}); isObj {
					for _, kw := range []string{"not", "additionalProperties", "additionalItems", "items"} {
						if _, has := nm[kw]; !has {
							toks = append(append([]string{}, toks...), kw)
							fault = "dangling-pointer(absent-keyword)"
							break
						}
					}
				}
			}
		case 1:
			if tdoc != w.Root {
				tdoc = tdoc + ".missing"
				fault = "dangling-document"
			}
		case 3:
			// an undeclared status code of an operation that exists (and may have a default response): designates nothing
			if t.kind == "response" && len(toks) >= 2 && toks[len(toks)-2] == "responses" {
				parent := oracle.State{Doc: t.st.Doc, Ptr: oracle.TokensToPointer(toks[:len(toks)-1])}
				if node, ok := in.Lookup(parent); ok {
					if rm, isObj := node.(map[string]interface{}); isObj {
						for _, code := range []string{"404", "200", "500", "201"} {
							if _, has := rm[code]; !has {
								toks = append(append([]string{}, toks[:len(toks)-1]...), code)
								fault = "dangling-pointer(undeclared-status-code)"
								break
							}
						}
					}
				}
			}
		}
		text := gen.RefText(w.Root, tdoc, toks, form)
		ref, err := spec.NewRef(text)
		if err != nil {
			res.Inconcl = "generator produced an unparsable reference " + text
			continue
		}
		// the oracle: RFC 3986 + RFC 6901
		want := c05Answer{}
		tgt, terr := oracle.RefTarget(w.Root, text)
		var designated interface{}
		exists := false
		if terr == nil {
			designated, exists = in.Lookup(tgt)
		}
		if exists {
			cv, cerr := codecOf(t.kind, designated)
			if cerr != nil {
				want.err = cerr
			} else {
				want.val = cv
			}
		} else {
			want.err = fmt.Errorf("designates nothing")
		}
		escaped := false
		for _, tk := range toks {
			if oracle.EscapeToken(tk) != tk || gen.FragmentEscape(tk) != tk {
				escaped = true
			}
		}
		if escaped || len(toks) >= 3 || t.st.Doc != w.Root || fault != "" {
			nontrivial++
		}
		res.Count("kind."+t.kind, 1)
		res.Count("form."+form, 1)
		if fault != "" {
			res.Count("fault."+fault, 1)
		}
		if escaped {
			res.Count("escaped-token", 1)
		}
		if t.st.Doc != w.Root {
			res.Count("cross-document", 1)
		}
		// the three ways of supplying the root
		type rep struct {
			name     string
			root     func() interface{}
			withBase bool
		}
		reps := []rep{
			{"typed", func() interface{} { sw := new(spec.Swagger); _ = json.Unmarshal(rootText, sw); return sw }, true},
			{"generic", func() interface{} { var g interface{}; _ = json.Unmarshal(rootText, &g); return g }, true},
			{"location-only", func() interface{} { return nil }, true},
		}
		if form == "fragment" {
			// the entry points without a base only make sense for references into the supplied root
			reps = append(reps, rep{"typed(no-base)", reps[0].root, false}, rep{"generic(no-base)", reps[1].root, false})
		}
		answers := map[string]c05Answer{}
		for _, rp := range reps {
			ld := newLoader(w)
			// what a reference designates does not depend on the expansion flags of the option structure it travels with
			flags := (idx + len(answers)) % 5
			opts := &spec.ExpandOptions{RelativeBase: w.Root, PathLoader: ld.load, ContinueOnError: flags == 1 || flags == 4, SkipSchemas: flags == 2 || flags == 4, AbsoluteCircularRef: flags == 3}
			if opts.ContinueOnError {
				res.Count("options.continue-on-error", 1)
			}
			if !rp.withBase {
				opts = nil
			}
			root := rp.root()
			var before interface{}
			if root != nil {
				before, _ = oracle.Norm(root)
			}
			if !rp.withBase && (t.kind == "pathItem" || t.kind == "items") {
				opts = &spec.ExpandOptions{PathLoader: ld.load, ContinueOnError: flags == 1 || flags == 4} // these two always take options
			}
			refBefore := ref.String()
			got := c05Resolve(t.kind, root, &ref, opts, rp.withBase)
			res.Evals++
			if after := ref.String(); after != refBefore {
				res.Violate("resolve-modified-the-reference-it-was-given "+t.kind+" root="+rp.name, fmt.Sprintf("%q became %q", refBefore, after), map[string]interface{}{"root": w.Root, "documents": w.Docs, "ref": text, "kind": t.kind, "root_representation": rp.name})
				ref, _ = spec.NewRef(text)
			}
			res.Count("root."+rp.name, 1)
			answers[rp.name] = got
			wit := map[string]interface{}{"root": w.Root, "documents": w.Docs, "ref": text, "kind": t.kind, "root_representation": rp.name, "expected": want.String(), "got": got.String()}
			cl := fmt.Sprintf("%s root=%s", t.kind, rp.name)
			switch {
			case got.pan != "":
				res.Violate("resolve-panic "+cl, got.pan, wit)
			case want.err != nil && got.err == nil:
				if exists {
					res.Violate("resolve-accepted-undecodable-target "+cl, fmt.Sprintf("%q: the codec rejects the target (%v) but the resolution returned %s", text, want.err, got), wit)
				} else {
					res.Violate("resolve-nil-error-for-nothing "+cl, fmt.Sprintf("%q designates nothing but the resolution returned %s with a nil error", text, got), wit)
				}
			case want.err == nil && got.err != nil:
				res.Violate("resolve-error-for-existing-target "+cl, fmt.Sprintf("%q designates %s but the resolution failed: %v", text, tgt, got.err), wit)
			case want.err == nil && !oracle.Equal(want.val, got.val):
				res.Violate("resolve-wrong-subdocument "+cl, fmt.Sprintf("%q designates %s = %s, got %s", text, tgt, want, got), wit)
			}
			if root != nil {
				after, _ := oracle.Norm(root)
				if !oracle.Equal(before, after) {
					res.Violate("resolve-modified-root "+cl, fmt.Sprintf("resolving %q changed the root document", text), wit)
				}
			}
		}
	}
	res.NonTrivial = nontrivial > 0
	res.Count("nontrivial-references", nontrivial)
	res.Sample = map[string]interface{}{"documents": len(w.Docs), "references_resolved": len(targets)}
	return res
}

func init() {
	core.Register(&core.Property{
		ID:    "C05",
		Level: "exploration",
		Rule: "G-WORLD documents with hostile element names ('/', '~', '%', '#', '?', space, braces, non-ASCII); up to 60 references per world to every element reachable by containment (definitions, nested sub-schemas, parameters, items, responses, path items) " +
			"in root, sibling, sub-/parent-directory and http documents, spelled fragment-only/relative/root-relative/absolute, plus dangling pointers and documents; resolved through Resolve{Ref,Parameter,Response,PathItem,Items}[WithBase] with the root as typed object, generic JSON and location only, the option structure carrying every combination of expansion flags; " +
			"expected = RFC 3986 (net/url) + own RFC 6901 evaluation, pushed through the kind's codec. non-trivial = escaped token, depth >= 3, other document or dangling; distinct by world",
		NumCases: c05NumCases,
		Run:      c05Run,
		Floors: func(env *core.Env) []string {
			return []string{"kind.schema", "kind.parameter", "kind.response", "kind.pathItem", "kind.items", "root.typed", "root.generic", "root.location-only", "root.typed(no-base)",
				"root.generic(no-base)", "fault.dangling-pointer", "fault.dangling-pointer(absent-keyword)", "fault.dangling-document", "escaped-token", "cross-document", "options.continue-on-error", "root-without-extension", "fault.dangling-pointer(undeclared-status-code)", "form.fragment", "form.rel", "form.abs", "form.rootrel"}
		},
		Assumptions: []string{"the expected value is the designated JSON after the kind's own codec (C01 owns codec losses)", "the zero Ref{} is not a reference and is left out"},
	})
}
