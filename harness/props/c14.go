package props

import (
	"bytes"
	"encoding/gob"
	"encoding/json"
	"fmt"

	"github.com/go-openapi/spec"

	"verifharness/core"
	"verifharness/gen"
	"verifharness/oracle"
)

// C14 — gob transport preserves the document: JSON(gobDecode(gobEncode(v))) == JSON(v).

var c14Kinds = []string{"swagger", "operation", "parameter", "schema", "response"}

func c14Variants(env *core.Env) int {
	if env.Thorough() {
		return 16
	}
	return 4
}

func c14NumCases(env *core.Env) int {
	n := len(structuredCellsFor(c14Kinds))*c14Variants(env) + len(c14RefStrings)
	if env.Thorough() {
		return n + 150000
	}
	return n + 30000
}

var c14RefStrings = append([]string{"", "#", "#/definitions/Pet", "other.json", "HTTP://Example.COM:80/a//b.json#/x~1y", "file:///a/b.json#/definitions/%C3%A9",
	"../up/x.yaml#/a%20b", "https://h.example/p?q=1#/d/0"}, gen.SchemaRefPool...)

func gobRoundTrip(v interface{}, fresh interface{}) (stage string, detail string) {
	var buf bytes.Buffer
	err, pan := guard(func() error { return gob.NewEncoder(&buf).Encode(v) })
	if pan != "" {
		return "gob-encode-panic", pan
	}
	if err != nil {
		return "gob-encode-error", err.Error()
	}
	err, pan = guard(func() error { return gob.NewDecoder(&buf).Decode(fresh) })
	if pan != "" {
		return "gob-decode-panic", pan
	}
	if err != nil {
		return "gob-decode-error", err.Error()
	}
	return "", ""
}

func c14Run(env *core.Env, idx int) core.CaseResult {
	var res core.CaseResult
	nStruct := len(structuredCellsFor(c14Kinds)) * c14Variants(env)
	var (
		kind  string
		text  []byte
		kinds map[string]string
	)
	if idx >= nStruct && idx < nStruct+len(c14RefStrings) {
		kind = "ref"
		text, _ = json.Marshal(map[string]interface{}{"$ref": c14RefStrings[idx-nStruct]})
		kinds = map[string]string{"": "ref"}
		res.NonTrivial = true
	} else {
		j := idx
		if idx >= nStruct {
			j = idx - len(c14RefStrings)
		}
		g, k, doc, structured := docCaseKinds(env, "C14", j, c14Variants(env), true, c14Kinds)
		kind, kinds = k, g.Kinds
		text, _ = json.Marshal(doc)
		res.NonTrivial = countMembers(doc) >= len(requiredMembers[kind])+2 || len(g.Kinds) > 1
		for c, n := range g.Cells {
			res.Count("kw."+c, n)
		}
		if structured {
			res.Count("part.structured", 1)
		} else {
			res.Count("part.random", 1)
		}
	}
	res.Hash = core.HashBytes(text)
	res.Count("kind."+kind, 1)
	res.Sample = map[string]interface{}{"kind": kind, "document": core.Abbrev(string(text), 400)}
	wit := map[string]interface{}{"kind": kind, "input": json.RawMessage(text)}
	v := newTyped(kind)
	err, pan := guard(func() error { return json.Unmarshal(text, v) })
	if pan != "" || err != nil {
		// decoding is C01/C07's business; nothing to transport
		res.Count("undecodable", 1)
		return res
	}
	before, err := json.Marshal(v)
	if err != nil {
		res.Count("unencodable", 1)
		return res
	}
	res.Evals = 1
	fresh := newTyped(kind)
	if stage, detail := gobRoundTrip(v, fresh); stage != "" {
		res.Violate(fmt.Sprintf("%s %s: %s", stage, kind, errClass(fmt.Errorf("%s", detail))), detail, wit)
		return res
	}
	after, err := json.Marshal(fresh)
	if err != nil {
		res.Violate("encode-error-after-gob "+kind+": "+errClass(err), err.Error(), wit)
		return res
	}
	jb, _ := oracle.Parse(before)
	ja, _ := oracle.Parse(after)
	if kind == "ref" {
		// the reference itself must be equal, not only its JSON form
		r1, r2 := v.(*spec.Ref), fresh.(*spec.Ref)
		if r1.String() != r2.String() || r1.HasFullURL != r2.HasFullURL || r1.HasFragmentOnly != r2.HasFragmentOnly || r1.HasFileScheme != r2.HasFileScheme ||
			r1.HasFullFilePath != r2.HasFullFilePath || r1.HasURLPathOnly != r2.HasURLPathOnly {
			res.Violate("ref-changed-by-gob", fmt.Sprintf("%q -> %q", r1.String(), r2.String()), wit)
		}
	}
	if oracle.Equal(jb, ja) {
		return res
	}
	wit["json_before_gob"] = json.RawMessage(before)
	wit["json_after_gob"] = json.RawMessage(after)
	seen := map[string]bool{}
	for _, d := range oracle.Diff(jb, ja) {
		cl := diffClass(kinds, d)
		if seen[cl] {
			continue
		}
		seen[cl] = true
		res.Violate(cl, fmt.Sprintf("at %s: before=%s after=%s", d.Pointer(), core.Abbrev(oracle.Text(d.Before), 120), core.Abbrev(oracle.Text(d.After), 120)), wit)
	}
	return res
}

func init() {
	core.Register(&core.Property{
		ID:    "C14",
		Level: "exploration",
		Rule: "G-DOC documents (swagger, operation, parameter, schema, response) with gob-fragile payloads (nulls, empty arrays/objects, \"\" and false nested in default/example/enum/examples/extensions), " +
			"zero-valued validations, the security shapes absent/[]/[{}]/empty scope lists, plus reference strings; decode, gob encode+decode, compare JSON(v) before/after as JSON values. " +
			"non-trivial = at least 2 optional members or a nested object; distinct by input text",
		NumCases: c14NumCases,
		Run:      c14Run,
		Floors: func(env *core.Env) []string {
			return []string{"kind.swagger", "kind.operation", "kind.parameter", "kind.schema", "kind.response", "kind.ref", "part.structured", "part.random",
				"kw.operation.security", "kw.swagger.security", "kw.schema.minimum", "kw.parameter.minimum", "kw.header.minimum", "kw.items.minimum", "kw.schema.additionalProperties"}
		},
		Assumptions: []string{"documents that the JSON codec itself rejects are skipped (C01/C07 own them)"},
	})
}
