package props

import (
	"bytes"
	"encoding/json"
	"fmt"
	"math"
	"sort"
	"strconv"
	"strings"

	"github.com/go-openapi/spec"

	"verifharness/core"
	"verifharness/gen"
	"verifharness/oracle"
)

// C06 — encoding is well-formed, collision-free and deterministic.

const c06Repeats = 20

func c06NumCases(env *core.Env) int {
	if env.Thorough() {
		return 120000
	}
	return 40000
}

// xOrderOf interprets an x-order extension the way the package documents it (Extensions.GetInt):
// a number is truncated to an int, a decimal string is parsed; anything else is no order.
// integral reports whether the value is an exact integer (only then the position is checked, otherwise determinism only).
func xOrderOf(v interface{}) (order int, has bool, integral bool) {
	switch x := v.(type) {
	case json.Number:
		f, err := x.Float64()
		if err != nil {
			return 0, false, false
		}
		return int(f), true, f == math.Trunc(f)
	case float64:
		return int(x), true, x == math.Trunc(x)
	case string:
		if n, err := strconv.Atoi(x); err == nil {
			return n, true, true
		}
	}
	return 0, false, true
}

// checkPropertyOrder verifies "properties ordered by x-order and then by name" on the raw text.
func checkPropertyOrder(text []byte, parsed interface{}, propPaths map[string]bool, report func(class, detail string)) int {
	ordered, err := oracle.OrderedKeys(text)
	if err != nil {
		return 0
	}
	checked := 0
	var walk func(v interface{}, path []string)
	walk = func(v interface{}, path []string) {
		switch x := v.(type) {
		case map[string]interface{}:
			if len(path) > 0 && path[len(path)-1] == "properties" && propPaths[oracle.TokensToPointer(path)] {
				// is this a schema's properties map? every value must be an object
				type item struct {
					name  string
					order int
					has   bool
				}
				var items []item
				ok := true
				for name, pv := range x {
					pm, isObj := pv.(map[string]interface{})
					if !isObj {
						ok = false
						break
					}
					o, has, integral := xOrderOf(pm["x-order"])
					for k := range pm {
						if k != "x-order" && strings.EqualFold(k, "x-order") {
							integral = false // a case variant of the extension name: whether it counts is not stated, only determinism is checked
						}
					}
					if !integral {
						ok = false // non-integer x-order: only determinism is promised
						break
					}
					items = append(items, item{name, o, has})
				}
				if ok && len(items) > 1 {
					sort.Slice(items, func(i, j int) bool {
						a, b := items[i], items[j]
						if a.has != b.has {
							return a.has
						}
						if a.has && a.order != b.order {
							return a.order < b.order
						}
						return a.name < b.name
					})
					var want []string
					for _, it := range items {
						want = append(want, it.name)
					}
					got := ordered[oracle.TokensToPointer(path)]
					checked++
					if fmt.Sprint(want) != fmt.Sprint(got) {
						report("properties-order", fmt.Sprintf("at %s: emitted %q, (x-order, name) order is %q", oracle.TokensToPointer(path), got, want))
					}
				}
			}
			for k, w := range x {
				walk(w, append(append([]string{}, path...), k))
			}
		case []interface{}:
			for i, w := range x {
				walk(w, append(append([]string{}, path...), strconv.Itoa(i)))
			}
		}
	}
	walk(parsed, nil)
	return checked
}

func c06Run(env *core.Env, idx int) core.CaseResult {
	var res core.CaseResult
	rng := core.Rng(env.Seed, "C06", idx)
	var (
		typed    interface{}
		expected interface{}
		source   string
		script   []string
		input    []byte
	)
	if idx%2 == 0 {
		// a value obtained by decoding a generated document
		g := gen.NewDocGen(rng)
		g.Refs, g.XOrder, g.EmptyRequired = true, true, rng.Intn(4) == 0
		g.BigMaps = rng.Intn(4) == 0
		g.Density = []float64{0.8, 1.3, 1.8}[rng.Intn(3)]
		g.MaxDepth = 2 + rng.Intn(3)
		kind := gen.DocKinds[(idx/2)%len(gen.DocKinds)]
		doc := g.Gen(kind)
		input, _ = json.Marshal(doc)
		v := newTyped(kind)
		err, pan := guard(func() error { return json.Unmarshal(input, v) })
		if err != nil || pan != "" {
			res.Count("undecodable", 1)
			return res
		}
		typed, source = v, "decoded:"+kind
	} else {
		b := gen.NewBuilder(rng)
		switch (idx / 2) % 9 {
		case 7:
			// a paths object filled directly: path items under names that are not paths (one of them a legal extension name that an
			// extension of the object also carries), extensions in both letter cases
			p := &spec.Paths{Paths: map[string]spec.PathItem{}}
			names := []string{"/pets", "/a\"b", "x-internal", "relative", "X-Upper", "/{id}"}
			rng.Shuffle(len(names), func(i, j int) { names[i], names[j] = names[j], names[i] })
			for _, n := range names[:2+rng.Intn(4)] {
				pi := spec.PathItem{}
				pi.Get = spec.NewOperation("op" + fmt.Sprint(rng.Intn(100))).RespondsWith(200, spec.NewResponse().WithDescription("ok"))
				p.Paths[n] = pi
				b.Calls = append(b.Calls, fmt.Sprintf("Paths.Paths[%q] = PathItem{Get: …}", n))
			}
			for _, e := range []string{"x-internal", "X-Upper", "x-other"}[:1+rng.Intn(3)] {
				p.AddExtension(e, rng.Intn(2) == 0)
				b.Calls = append(b.Calls, fmt.Sprintf("Paths.AddExtension(%q, bool)", e))
			}
			typed, source = p, "builder:paths"
		case 8:
			// a responses object filled directly: status codes that are not HTTP codes next to a default response
			r := &spec.Responses{}
			r.StatusCodeResponses = map[int]spec.Response{}
			for _, c := range []int{0, 7, 200, 404, 999, 1000, -1}[rng.Intn(3):][:2+rng.Intn(3)] {
				r.StatusCodeResponses[c] = *spec.NewResponse().WithDescription(fmt.Sprintf("code %d", c))
				b.Calls = append(b.Calls, fmt.Sprintf("Responses.StatusCodeResponses[%d] = …", c))
			}
			if rng.Intn(2) == 0 {
				r.Default = spec.NewResponse().WithDescription("the default response")
				b.Calls = append(b.Calls, "Responses.Default = …")
			}
			r.AddExtension("x-200", "an extension")
			typed, source = r, "builder:responses"
		case 0, 1:
			typed, expected = b.Schema(2+rng.Intn(2), true)
			source = "builder:schema"
		case 2:
			typed, expected = b.Operation()
			source = "builder:operation"
		case 3:
			typed, expected = b.Response()
			source = "builder:response"
		case 4:
			typed, expected = b.SecurityScheme()
			source = "builder:securityScheme"
		case 5:
			typed, expected = b.Parameter()
			source = "builder:parameter"
		default:
			typed, expected = b.Header()
			source = "builder:header"
		}
		script = b.Calls
	}
	res.Count("source."+source, 1)
	wit := map[string]interface{}{"source": source}
	if input != nil {
		wit["decoded_from"] = json.RawMessage(input)
	}
	if script != nil {
		wit["builder_calls"] = script
		wit["expected"] = expected
	}
	report := func(class, detail string) { res.Violate(class+" ["+source+"]", detail, wit) }

	var first []byte
	for rep := 0; rep < c06Repeats; rep++ {
		var out []byte
		err, pan := guard(func() error {
			var e error
			out, e = json.Marshal(typed)
			return e
		})
		res.Evals++
		if pan != "" {
			report("encode-panic", pan)
			return res
		}
		if err != nil {
			// the statement allows an error; it must then be an error every time
			res.Count("encode-error(allowed)", 1)
			if rep > 0 && first != nil {
				report("encode-error-intermittent", err.Error())
			}
			if rep == 0 {
				first = nil
			}
			continue
		}
		if rep == 0 {
			first = out
			continue
		}
		if first == nil {
			report("encode-error-intermittent", "first encoding failed, a later one succeeded")
			return res
		}
		if !bytes.Equal(first, out) {
			report("encoding-nondeterministic", fmt.Sprintf("encoding %d differs from the first: %s vs %s", rep, core.Abbrev(string(first), 200), core.Abbrev(string(out), 200)))
			break
		}
	}
	if first == nil {
		return res
	}
	sc := oracle.Scan(first)
	if !sc.Valid {
		report("encoded-invalid-json", sc.Err+": "+core.Abbrev(string(first), 300))
		return res
	}
	if sc.Duplicate != "" {
		report("duplicate-member", "member "+sc.Duplicate+" appears twice in "+core.Abbrev(string(first), 300))
	}
	parsed, err := oracle.Parse(first)
	if err != nil {
		report("encoded-invalid-json", err.Error())
		return res
	}
	// what the text says vs what the model holds
	seen, propPaths := conserveCheck(typed, parsed, report)
	res.Count("names-compared", seen)
	if expected != nil {
		en, _ := oracle.Norm(expected)
		if !oracle.Equal(en, parsed) {
			d := oracle.Diff(en, parsed)
			cl := "builder-model-mismatch"
			detail := ""
			if len(d) > 0 {
				cl += " " + d[0].Kind
				detail = fmt.Sprintf("at %s: built %s, encoded %s", d[0].Pointer(), core.Abbrev(oracle.Text(d[0].Before), 150), core.Abbrev(oracle.Text(d[0].After), 150))
			}
			report(cl, detail)
		}
	}
	res.Count("order-checked", checkPropertyOrder(first, parsed, propPaths, report))
	// the exported encoder of ordered properties hands out bytes the caller owns
	if sch, ok := typed.(*spec.Schema); ok && len(sch.Properties) > 0 {
		b1, err1 := sch.Properties.ToOrderedSchemaItems().MarshalJSON()
		keep := append([]byte{}, b1...)
		aa := spec.Int64Property()
		aa.AddExtension("x-order", 2)
		other := spec.SchemaProperties{"zz": *spec.StringProperty(), "aa": *aa}
		_, _ = other.ToOrderedSchemaItems().MarshalJSON()
		_, _ = sch.Properties.ToOrderedSchemaItems().MarshalJSON()
		res.Evals += 3
		res.Count("ordered-items-sequence", 1)
		if err1 == nil && !bytes.Equal(b1, keep) {
			report("encoder-result-overwritten-by-a-later-encoding", fmt.Sprintf("bytes returned by OrderSchemaItems.MarshalJSON changed after another encoding: %s -> %s", core.Abbrev(string(keep), 150), core.Abbrev(string(b1), 150)))
		}
	}
	res.Hash = core.HashBytes(first)
	hostile := false
	var scan func(v interface{})
	maxKeys := 0
	scan = func(v interface{}) {
		switch x := v.(type) {
		case map[string]interface{}:
			if len(x) > maxKeys {
				maxKeys = len(x)
			}
			for k, w := range x {
				if nameClass(k) != "plain" || k == "x-order" {
					hostile = true
				}
				scan(w)
			}
		case []interface{}:
			for _, w := range x {
				scan(w)
			}
		}
	}
	scan(parsed)
	res.NonTrivial = maxKeys >= 2 || hostile
	if hostile {
		res.Count("with-hostile-name-or-x-order", 1)
	}
	res.Sample = map[string]interface{}{"source": source, "encoding": core.Abbrev(string(first), 300)}
	return res
}

func init() {
	core.Register(&core.Property{
		ID:    "C06",
		Level: "exploration",
		Rule: "model values from (a) decoding G-DOC documents with hostile member names and every x-order shape (ties, strings, floats, missing) and (b) seeded builder scripts using only exported constructors/methods; " +
			"each value is encoded 20 times (Go re-randomises map iteration each time): bytes must be identical, valid JSON, duplicate-free, names/payloads equal to what the model holds, properties in (x-order, name) order; " +
			"non-trivial = a map with >=2 keys or a hostile name or an x-order; distinct by encoded text",
		NumCases: c06NumCases,
		Run:      c06Run,
		Floors: func(env *core.Env) []string {
			return []string{"source.builder:schema", "source.builder:operation", "source.builder:response", "source.builder:securityScheme", "source.builder:parameter",
				"source.builder:header", "source.builder:paths", "source.builder:responses", "source.decoded:swagger", "source.decoded:schema", "order-checked", "names-compared", "with-hostile-name-or-x-order", "ordered-items-sequence"}
		},
		Assumptions: []string{
			"an encoding error is accepted (the statement allows it) provided it is not intermittent",
			"the position of a property whose x-order is not an integer is not checked (only determinism); integer semantics as documented by Extensions.GetInt",
			"for builder-built values the expected document is maintained next to the calls by the script generator",
		},
	})
}
