package props

import (
	"bytes"
	"encoding/json"
	"fmt"

	"verifharness/core"
	"verifharness/gen"
	"verifharness/oracle"
)

// C07 — decoding is total and its normalisation is idempotent.

var c07Targets = []string{"swagger", "schema", "parameter", "items", "header", "response", "responses", "operation", "pathItem", "paths", "securityScheme",
	"info", "contact", "license", "tag", "xml", "externalDocs", "schemaOrBool", "schemaOrArray", "schemaOrStringArray", "stringOrArray", "ref", "schemaURL",
	"schemaProperties", "definitions", "securityDefinitions", "dependencies", "vendorExtensible"}

const c07Batch = 16

func c07NumCases(env *core.Env) int {
	if env.Thorough() {
		return 125000 // x16 inputs
	}
	return 16000
}

// decodeTotal decodes text into the target and checks totality and the fixed-point law.
func c07Check(res *core.CaseResult, target string, m gen.Mutant, seedText []byte) {
	text := m.Text
	wit := map[string]interface{}{"target": target, "mutations": m.Ops}
	if len(text) < 4000 {
		wit["input_text"] = string(text)
	} else {
		wit["input_text_head"] = string(text[:2000])
		wit["input_len"] = len(text)
	}
	res.Evals++
	res.Count("target."+target, 1)
	v := newTyped(target)
	err, pan := guard(func() error { return json.Unmarshal(text, v) })
	if pan != "" {
		res.Violate("decode-panic "+target+": "+errClass(fmt.Errorf("%s", pan)), pan, wit)
		return
	}
	if err != nil {
		res.Count("rejected", 1)
		c07Canary(res, target, wit)
		return
	}
	res.Count("decoded", 1)
	var e1 []byte
	err, pan = guard(func() error {
		var e error
		e1, e = json.Marshal(v)
		return e
	})
	if pan != "" {
		res.Violate("encode-panic "+target+": "+errClass(fmt.Errorf("%s", pan)), pan, wit)
		return
	}
	if err != nil {
		res.Count("encode-error", 1)
		return
	}
	if m.CaseFold {
		res.Count("casefold(totality-only)", 1)
		return
	}
	if !bytes.Equal(text, seedText) {
		res.Count("nontrivial", 1)
	}
	// fixed point: D then E once more reproduces e1
	v2 := newTyped(target)
	err, pan = guard(func() error { return json.Unmarshal(e1, v2) })
	if pan != "" {
		res.Violate("decode-panic-on-own-encoding "+target, pan, wit)
		return
	}
	if err != nil {
		wit["first_encoding"] = core.Abbrev(string(e1), 2000)
		res.Violate("own-encoding-rejected "+target+": "+errClass(err), err.Error(), wit)
		return
	}
	var e2 []byte
	err, pan = guard(func() error {
		var e error
		e2, e = json.Marshal(v2)
		return e
	})
	if pan != "" || err != nil {
		res.Violate("second-encoding-failed "+target, fmt.Sprintf("%v %s", err, pan), wit)
		return
	}
	if bytes.Equal(e1, e2) {
		return
	}
	wit["first_encoding"] = core.Abbrev(string(e1), 2000)
	wit["second_encoding"] = core.Abbrev(string(e2), 2000)
	j1, err1 := oracle.Parse(e1)
	j2, err2 := oracle.Parse(e2)
	if err1 != nil || err2 != nil {
		res.Violate("not-fixed "+target+" (unparsable encoding)", fmt.Sprintf("%v %v", err1, err2), wit)
		return
	}
	if oracle.Equal(j1, j2) {
		res.Violate("not-fixed ORDER-ONLY", "the two encodings are equal as JSON values but differ in bytes", wit)
		return
	}
	d := oracle.Diff(j1, j2)
	it := d[0]
	member := "(root)"
	if len(it.Path) > 0 {
		member = it.Path[len(it.Path)-1]
		if _, err := fmt.Sscanf(member, "%d", new(int)); err == nil && len(it.Path) > 1 {
			member = it.Path[len(it.Path)-2] + "[i]"
		}
		if nameClass(member) != "plain" || len(member) > 24 {
			member = "<name>"
		}
	}
	after := oracle.ValueClass(it.After)
	before := oracle.ValueClass(it.Before)
	switch it.Kind {
	case "lost":
		after = "absent"
	case "added":
		before = "absent"
	}
	res.Violate(fmt.Sprintf("not-fixed %s(%s->%s)", member, before, after),
		fmt.Sprintf("at %s: first encoding has %s, second has %s", it.Pointer(), core.Abbrev(oracle.Text(it.Before), 120), core.Abbrev(oracle.Text(it.After), 120)), wit)
}

// canaries: after a rejected input, a known normal-form document must still decode to exactly itself
// (a decoder that recycles state must not let a failed decode leak into the next one).
var c07Canaries = map[string]string{
	"schema":  `{"type":"string","pattern":"^a+$"}`,
	"swagger": `{"swagger":"2.0","info":{"title":"t","version":"1"},"paths":{"/p":{"get":{"responses":{"200":{"description":"ok","schema":{"type":"integer"}}}}}},"definitions":{"d":{"type":"object","properties":{"p":{"type":"boolean"}}}}}`,
}

func c07Canary(res *core.CaseResult, afterTarget string, wit map[string]interface{}) {
	for kind, text := range c07Canaries {
		out, _, stage, detail := roundTrip(kind, []byte(text))
		res.Count("canary-checks", 1)
		if stage != "" {
			res.Violate("canary-"+kind+"-fails-after-a-rejected-input: "+stage, detail, wit)
			continue
		}
		a, _ := oracle.Parse([]byte(text))
		b, err := oracle.Parse(out)
		if err != nil || !oracle.Equal(a, b) {
			res.Violate("canary-"+kind+"-changed-after-a-rejected-input", fmt.Sprintf("after a rejected %s input, %s decodes and encodes as %s", afterTarget, text, core.Abbrev(string(out), 300)), wit)
		}
	}
}

func c07Run(env *core.Env, idx int) core.CaseResult {
	var res core.CaseResult
	rng := core.Rng(env.Seed, "C07", idx)
	deep := 2000
	if env.Thorough() {
		deep = 5000
	}
	var sample []string
	for k := 0; k < c07Batch; k++ {
		g := gen.NewDocGen(rng)
		g.Refs, g.XOrder, g.Fragile, g.EmptyRequired = true, rng.Intn(2) == 0, rng.Intn(2) == 0, rng.Intn(2) == 0
		g.MaxDepth = 2 + rng.Intn(3)
		g.BigMaps = rng.Intn(10) == 0
		kind := gen.DocKinds[rng.Intn(len(gen.DocKinds))]
		doc := g.Gen(kind)
		seedText, _ := json.Marshal(doc)
		var m gen.Mutant
		target := kind
		switch r := rng.Intn(20); {
		case r < 12:
			m = gen.Mutate(rng, doc, 1+rng.Intn(3), deep)
		case r < 14:
			m = gen.Mutate(rng, doc, 4+rng.Intn(8), 0)
		case r < 16:
			m = gen.Damage(rng, seedText)
		case r < 17:
			m = gen.Mutant{Text: seedText, Ops: []string{"unmutated seed"}}
		default:
			// a sub-node of the (mutated) document into a union/helper type or another kind
			m = gen.Mutate(rng, doc, rng.Intn(3), 0)
			var any interface{}
			if json.Unmarshal(m.Text, &any) == nil {
				var subs []interface{}
				var walk func(v interface{})
				walk = func(v interface{}) {
					subs = append(subs, v)
					switch x := v.(type) {
					case map[string]interface{}:
						for _, w := range x {
							walk(w)
						}
					case []interface{}:
						for _, w := range x {
							walk(w)
						}
					}
				}
				walk(any)
				sb, _ := json.Marshal(subs[rng.Intn(len(subs))])
				m.Text = sb
				m.Ops = append(m.Ops, "sub-node taken as input")
			}
			target = c07Targets[rng.Intn(len(c07Targets))]
		}
		if rng.Intn(5) == 0 {
			target = c07Targets[rng.Intn(len(c07Targets))]
		}
		c07Check(&res, target, m, seedText)
		if k < 2 {
			sample = append(sample, target+" <- "+core.Abbrev(string(m.Text), 160))
		}
	}
	res.Hash = core.HashOf([]interface{}{idx, sample})
	res.NonTrivial = res.Cover["nontrivial"] > 0
	res.Sample = sample
	return res
}

func init() {
	floors := []string{"decoded", "rejected", "nontrivial", "casefold(totality-only)", "canary-checks"}
	for _, t := range c07Targets {
		floors = append(floors, "target."+t)
	}
	core.Register(&core.Property{
		ID:    "C07",
		Level: "exploration",
		Rule: "G-MUT: structure-aware mutation of G-DOC documents (node replaced by every other JSON type, nulls, empty containers, duplicate members, extreme numbers, nesting to depth 2000/5000, odd $ref/$schema/id strings, " +
			"keyword copies, case-folded member names) plus byte-level damage; decoded into each of 28 exported model types (incl. the union types); batch of 16 inputs per case; " +
			"decode must not panic/hang; on success encode must not panic and E(D(E(D(x)))) == E(D(x)) byte-wise (skipped for case-folded names); non-trivial = batch has an input that decodes and differs from its seed",
		NumCases: c07NumCases,
		Run:      c07Run,
		Floors:   func(env *core.Env) []string { return floors },
		Assumptions: []string{"hangs are decided by the supervisor's confirmed-hang rule (chunk watchdog, then the case alone for 120 s)",
			"a fatal stack overflow kills the worker; the supervisor reports the case that was started and not finished"},
	})
}
