package props

import (
	"fmt"
	"reflect"
	"sort"
	"strconv"
	"strings"

	"github.com/go-openapi/spec"

	"verifharness/oracle"
)

// conserve compares what a typed model value holds with the parse of its encoding, position by position:
// member names at every map position (properties, definitions, extensions, paths, status codes, ...),
// free-form payloads by value, and no member in the text that the model cannot account for.
// It is written against the exported fields of the model only.
type conserver struct {
	report func(class, detail string)
	seen   int
	// propPaths are the pointers of the "properties" maps of schemas, as the model sees them (a member that is merely
	// *named* "properties" inside definitions, or inside a free-form payload, is not one)
	propPaths map[string]bool
}

var (
	tRef         = reflect.TypeOf(spec.Ref{})
	tRefable     = reflect.TypeOf(spec.Refable{})
	tSchemaURL   = reflect.TypeOf(spec.SchemaURL(""))
	tSOB         = reflect.TypeOf(spec.SchemaOrBool{})
	tSOA         = reflect.TypeOf(spec.SchemaOrArray{})
	tSOSA        = reflect.TypeOf(spec.SchemaOrStringArray{})
	tStrOrArr    = reflect.TypeOf(spec.StringOrArray{})
	tPaths       = reflect.TypeOf(spec.Paths{})
	tResponses   = reflect.TypeOf(spec.Responses{})
	tVendorExt   = reflect.TypeOf(spec.VendorExtensible{})
	tExtensions  = reflect.TypeOf(spec.Extensions{})
	tSchema      = reflect.TypeOf(spec.Schema{})
	tIfaceMap    = reflect.TypeOf(map[string]interface{}{})
	tResponsesPr = reflect.TypeOf(spec.ResponsesProps{})
)

func (c *conserver) fail(class string, path []string, detail string) {
	c.report(class, "at "+oracle.TokensToPointer(path)+": "+detail)
}

func keysOf(m map[string]interface{}) []string {
	var ks []string
	for k := range m {
		ks = append(ks, k)
	}
	sort.Strings(ks)
	return ks
}

func (c *conserver) walk(rv reflect.Value, j interface{}, path []string, where string) {
	for rv.Kind() == reflect.Ptr || rv.Kind() == reflect.Interface {
		if rv.IsNil() {
			return
		}
		rv = rv.Elem()
	}
	t := rv.Type()
	switch t {
	case tRef, tRefable, tSchemaURL, tStrOrArr:
		return
	case tSOB:
		v := rv.Interface().(spec.SchemaOrBool)
		if v.Schema != nil {
			c.walk(reflect.ValueOf(v.Schema), j, path, where)
		} else if b, ok := j.(bool); !ok || b != v.Allows {
			c.fail("model-text-mismatch "+where+"(bool-or-schema)", path, fmt.Sprintf("model allows=%v text=%s", v.Allows, oracle.Text(j)))
		}
		return
	case tSOA:
		v := rv.Interface().(spec.SchemaOrArray)
		if len(v.Schemas) > 0 {
			a, ok := j.([]interface{})
			if !ok || len(a) != len(v.Schemas) {
				c.fail("model-text-mismatch "+where+"(tuple)", path, fmt.Sprintf("model has %d schemas, text %s", len(v.Schemas), oracle.ValueClass(j)))
				return
			}
			for i := range v.Schemas {
				c.walk(reflect.ValueOf(v.Schemas[i]), a[i], append(append([]string{}, path...), strconv.Itoa(i)), where)
			}
		} else if v.Schema != nil {
			c.walk(reflect.ValueOf(v.Schema), j, path, where)
		}
		return
	case tSOSA:
		v := rv.Interface().(spec.SchemaOrStringArray)
		if len(v.Property) > 0 {
			n, _ := oracle.Norm(v.Property)
			if !oracle.Equal(n, j) {
				c.fail("model-text-mismatch "+where+"(string-array)", path, fmt.Sprintf("model %v text %s", v.Property, oracle.Text(j)))
			}
		} else if v.Schema != nil {
			c.walk(reflect.ValueOf(v.Schema), j, path, where)
		}
		return
	}
	switch rv.Kind() {
	case reflect.Struct:
		c.walkStruct(rv, j, path)
	case reflect.Map:
		if t.Key().Kind() != reflect.String {
			return
		}
		jm, ok := j.(map[string]interface{})
		if !ok {
			if rv.Len() > 0 {
				c.fail("model-text-mismatch "+where+"(map)", path, "text is "+oracle.ValueClass(j))
			}
			return
		}
		if where == "Schema.properties" && c.propPaths != nil {
			c.propPaths[oracle.TokensToPointer(path)] = true
		}
		var mk []string
		for _, k := range rv.MapKeys() {
			mk = append(mk, k.String())
		}
		sort.Strings(mk)
		c.seen += len(mk)
		if !reflect.DeepEqual(mk, keysOf(jm)) && !(len(mk) == 0 && len(jm) == 0) {
			c.fail("names-not-conserved "+where, path, fmt.Sprintf("model holds %q, text has %q", mk, keysOf(jm)))
			return
		}
		for _, k := range rv.MapKeys() {
			c.walk(rv.MapIndex(k), jm[k.String()], append(append([]string{}, path...), k.String()), where+".<name>")
		}
	case reflect.Slice:
		if rv.Len() == 0 {
			return
		}
		ja, ok := j.([]interface{})
		if !ok || len(ja) != rv.Len() {
			c.fail("model-text-mismatch "+where+"(array)", path, fmt.Sprintf("model has %d elements, text %s", rv.Len(), oracle.Text(j)))
			return
		}
		for i := 0; i < rv.Len(); i++ {
			c.walk(rv.Index(i), ja[i], append(append([]string{}, path...), strconv.Itoa(i)), where)
		}
	case reflect.String:
		if s, ok := j.(string); !ok || s != rv.String() {
			c.fail("model-text-mismatch "+where+"(string)", path, fmt.Sprintf("model %q text %s", rv.String(), oracle.Text(j)))
		}
	}
}

type fieldAt struct {
	name string
	v    reflect.Value
}

// flatten lists the JSON-tagged fields of a struct, descending into embedded structs.
func flatten(rv reflect.Value, out *[]fieldAt, exts *[]spec.Extensions, extra *map[string]interface{}, special *[]reflect.Value) {
	t := rv.Type()
	for i := 0; i < t.NumField(); i++ {
		f := t.Field(i)
		if f.PkgPath != "" {
			continue
		}
		fv := rv.Field(i)
		switch {
		case f.Type == tVendorExt:
			*exts = append(*exts, fv.Interface().(spec.VendorExtensible).Extensions)
			continue
		case f.Type == tRefable, f.Type == tRef, f.Type == tSchemaURL:
			continue
		case f.Type == tResponsesPr:
			*special = append(*special, fv)
			continue
		case f.Name == "ExtraProps" && f.Type == tIfaceMap:
			*extra = fv.Interface().(map[string]interface{})
			continue
		}
		if f.Anonymous && f.Type.Kind() == reflect.Struct {
			flatten(fv, out, exts, extra, special)
			continue
		}
		tag := f.Tag.Get("json")
		name := strings.Split(tag, ",")[0]
		if name == "-" || name == "" {
			continue
		}
		*out = append(*out, fieldAt{name, fv})
	}
}

func (c *conserver) walkStruct(rv reflect.Value, j interface{}, path []string) {
	t := rv.Type()
	jm, ok := j.(map[string]interface{})
	if !ok {
		c.fail("model-text-mismatch "+t.Name()+"(object)", path, "text is "+oracle.ValueClass(j))
		return
	}
	var fields []fieldAt
	var exts []spec.Extensions
	var extra map[string]interface{}
	var special []reflect.Value
	flatten(rv, &fields, &exts, &extra, &special)
	accounted := map[string]bool{"$ref": true, "$schema": true}
	for _, f := range fields {
		accounted[f.name] = true
	}
	// vendor extensions: every x- key the model holds is in the text, with the same payload
	for _, e := range exts {
		for k, v := range e {
			if !strings.HasPrefix(strings.ToLower(k), "x-") {
				continue // the encoder only writes x- keys
			}
			accounted[k] = true
			c.seen++
			tv, ok := jm[k]
			if !ok {
				c.fail("names-not-conserved "+t.Name()+".x-*", path, fmt.Sprintf("extension %q held by the model is not in the text", k))
				continue
			}
			if n, err := oracle.Norm(v); err == nil && !oracle.Equal(n, tv) {
				c.fail("payload-not-conserved "+t.Name()+".x-*", path, fmt.Sprintf("%q: model %s text %s", k, oracle.Text(n), oracle.Text(tv)))
			}
		}
	}
	for k, v := range extra {
		accounted[k] = true
		c.seen++
		tv, ok := jm[k]
		if !ok {
			c.fail("names-not-conserved "+t.Name()+".<unknown-keyword>", path, fmt.Sprintf("keyword %q held by the model is not in the text", k))
			continue
		}
		if n, err := oracle.Norm(v); err == nil && !oracle.Equal(n, tv) {
			c.fail("payload-not-conserved "+t.Name()+".<unknown-keyword>", path, fmt.Sprintf("%q: model %s text %s", k, oracle.Text(n), oracle.Text(tv)))
		}
	}
	switch t {
	case tPaths:
		p := rv.Interface().(spec.Paths)
		for k := range p.Paths {
			if strings.HasPrefix(k, "/") {
				accounted[k] = true
				c.seen++
				if tv, ok := jm[k]; !ok {
					c.fail("names-not-conserved Paths.<path>", path, fmt.Sprintf("path %q held by the model is not in the text", k))
				} else {
					c.walk(reflect.ValueOf(p.Paths[k]), tv, append(append([]string{}, path...), k), "PathItem")
				}
			}
		}
	case tResponses:
		r := rv.Interface().(spec.Responses)
		if r.Default != nil {
			accounted["default"] = true
			if tv, ok := jm["default"]; !ok {
				c.fail("names-not-conserved Responses.default", path, "default response held by the model is not in the text")
			} else {
				c.walk(reflect.ValueOf(r.Default), tv, append(append([]string{}, path...), "default"), "Response")
			}
		}
		for code, resp := range r.StatusCodeResponses {
			k := strconv.Itoa(code)
			accounted[k] = true
			c.seen++
			if tv, ok := jm[k]; !ok {
				c.fail("names-not-conserved Responses.<code>", path, fmt.Sprintf("status code %d held by the model is not in the text", code))
			} else {
				c.walk(reflect.ValueOf(resp), tv, append(append([]string{}, path...), k), "Response")
			}
		}
	}
	// nothing in the text that the model cannot account for
	for k := range jm {
		if !accounted[k] {
			c.fail("text-has-unaccounted-member "+t.Name(), path, fmt.Sprintf("member %q of the text corresponds to nothing the model holds", k))
		}
	}
	for _, f := range fields {
		tv, ok := jm[f.name]
		if !ok {
			continue // omitted (empty) member
		}
		fv := f.v
		ft := fv.Type()
		where := t.Name() + "." + f.name
		if ft.Kind() == reflect.Interface || ft == tIfaceMap || (ft.Kind() == reflect.Slice && ft.Elem().Kind() == reflect.Interface) {
			// free-form payload: compare by value
			if n, err := oracle.Norm(fv.Interface()); err == nil && !oracle.Equal(n, tv) {
				c.fail("payload-not-conserved "+where, path, fmt.Sprintf("model %s text %s", oracle.Text(n), oracle.Text(tv)))
			}
			continue
		}
		c.walk(fv, tv, append(append([]string{}, path...), f.name), where)
	}
}

// conserveCheck runs the walker; report receives (class, detail).
func conserveCheck(v interface{}, parsed interface{}, report func(class, detail string)) (int, map[string]bool) {
	c := &conserver{report: report, propPaths: map[string]bool{}}
	c.walk(reflect.ValueOf(v), parsed, nil, "root")
	return c.seen, c.propPaths
}
