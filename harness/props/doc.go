// Package props holds one monitor per property (C01..C20); each registers itself with core.
package props
