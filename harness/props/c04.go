package props

import (
	"encoding/json"
	"fmt"
	"strings"

	"github.com/go-openapi/spec"

	"verifharness/core"
	"verifharness/gen"
	"verifharness/oracle"
)

// C04 — expansion terminates without crashing on every reference graph.
//
// Decided on logical steps: hook H1 counts every entry of expandSchema, every $ref followed and every deref hop;
// the budget is derived from the size U of the acyclic unfolding of the input (O-CYC). A panic, a fatal crash
// (worker death, seen by the supervisor), an exhausted budget or a $ref pushed twice on the parent stack is a violation.

var c04Positions = []string{"properties", "items", "items-tuple", "allOf", "anyOf", "oneOf", "not", "additionalProperties", "patternProperties", "dependencies", "additionalItems", "definitions"}

var c04IDVariants = []string{"none", "absolute", "relfile", "reldir", "fragment", "absdir", "updir", "byid", "byid-uppercase-host", "byid-default-port", "malformed"}

// the "byid" variants: every node names itself with an absolute id and the nodes refer to each other by a file name read in the scope of
// that id; the documents at those ids are the nodes themselves. The authority of the id is written in normal form, with upper-case
// letters, or with the default port of its scheme.
var c04ByIDBase = map[string]string{"byid": "http://ids.example/base/", "byid-uppercase-host": "http://IDS.Example/base/", "byid-default-port": "http://ids.example:80/base/"}

func c04ID(variant string, node int) string {
	switch variant {
	case "absolute":
		return fmt.Sprintf("http://ids.example/base/s%d.json", node)
	case "relfile":
		return fmt.Sprintf("idfile%d.json", node)
	case "reldir":
		return []string{"sub/", "sub/x.json"}[node%2]
	case "fragment":
		return "#frag"
	case "absdir":
		return "/abs/dir/"
	case "updir":
		return "../up/"
	}
	if variant == "malformed" {
		// ids that are not well-formed URIs: to be ignored, never to be tripped over
		return []string{"2020-01:pet", "%zz", ":", "http://[::1/schema.json"}[node%4]
	}
	if b, ok := c04ByIDBase[variant]; ok {
		return fmt.Sprintf("%ss%d.json", b, node)
	}
	return ""
}

// target codes of a schema slot: 0 none, 1..n schema node, n+1 dangling, n+2 ill-typed, n+3 a parameter (wrong kind)
func c04Targets(n int) int { return n + 4 }

// place puts child at a sub-schema position of s.
func c04Place(s map[string]interface{}, pos string, child interface{}) {
	switch pos {
	case "properties", "patternProperties", "definitions", "dependencies":
		m, _ := s[pos].(map[string]interface{})
		if m == nil {
			m = map[string]interface{}{}
			s[pos] = m
		}
		m[fmt.Sprintf("k%d", len(m))] = child
	case "items":
		if _, taken := s["items"]; taken {
			c04Place(s, "allOf", child)
			return
		}
		s["items"] = child
	case "items-tuple":
		if a, ok := s["items"].([]interface{}); ok {
			s["items"] = append(a, child)
		} else if _, taken := s["items"]; taken {
			c04Place(s, "anyOf", child)
		} else {
			s["items"] = []interface{}{child}
		}
	case "allOf", "anyOf", "oneOf":
		a, _ := s[pos].([]interface{})
		s[pos] = append(a, child)
	default: // not, additionalProperties, additionalItems
		if _, taken := s[pos]; taken {
			c04Place(s, "oneOf", child)
			return
		}
		s[pos] = child
	}
}

type c04Graph struct {
	n       int
	slots   []int // 2 per node
	idVar   string
	twoDocs bool
	pVar    int // parameter variant
	rVar    int
	iVar    int
	posSeed int
}

const c04Other = "file:///w/a/s/other.json"

// build turns a graph description into a world.
func (g c04Graph) build() *gen.World {
	w := &gen.World{Docs: map[string]interface{}{}, Root: gen.RootURL, Features: map[string]int{}}
	docOf := func(node int) string {
		if g.twoDocs && node == g.n-1 && g.n > 1 {
			return c04Other
		}
		return gen.RootURL
	}
	ref := func(fromDoc string, toNode int) string {
		to := docOf(toNode)
		toks := []string{"definitions", fmt.Sprintf("d%d", toNode)}
		form := "fragment"
		if _, byID := c04ByIDBase[g.idVar]; byID && fromDoc != "" {
			return fmt.Sprintf("s%d.json", toNode)
		}
		if fromDoc == "" {
			fromDoc = gen.RootURL
		}
		if to != fromDoc {
			form = []string{"rel", "abs", "rootrel"}[(g.posSeed+toNode)%3]
		}
		return gen.RefText(fromDoc, to, toks, form)
	}
	rootDefs := map[string]interface{}{}
	otherDefs := map[string]interface{}{}
	root := map[string]interface{}{"swagger": "2.0", "info": map[string]interface{}{"title": "t", "version": "1"}, "definitions": rootDefs,
		"illtyped": map[string]interface{}{"v": []interface{}{"a string", float64(3), true, []interface{}{float64(1)}, nil}[g.posSeed%5]}}
	for node := 0; node < g.n; node++ {
		doc := docOf(node)
		s := map[string]interface{}{"title": fmt.Sprintf("n%d", node)}
		_, byID := c04ByIDBase[g.idVar]
		if id := c04ID(g.idVar, node); id != "" && (node == 0 || g.posSeed%2 == 0 || byID) {
			s["id"] = id
		}
		if byID {
			w.Docs[fmt.Sprintf("http://ids.example/base/s%d.json", node)] = s // served at the normal form of the id
		}
		for k := 0; k < 2; k++ {
			t := g.slots[node*2+k]
			if t == 0 {
				continue
			}
			pos := c04Positions[(g.posSeed+node*5+k*7)%len(c04Positions)]
			var child interface{}
			switch {
			case t <= g.n:
				child = map[string]interface{}{"$ref": ref(doc, t-1)}
			case t == g.n+1:
				// dangling: an unknown name, or a keyword the target does not carry (a typed root then yields nothing, without a lookup error)
				child = map[string]interface{}{"$ref": []string{"#/definitions/nowhere", "#/definitions/d0/externalDocs", "#/definitions/d0/xml", "#/info/contact"}[(g.posSeed+k)%4]}
			case t == g.n+2:
				child = map[string]interface{}{"$ref": gen.RefText(doc, gen.RootURL, []string{"illtyped", "v"}, map[bool]string{true: "fragment", false: "abs"}[doc == gen.RootURL])}
			default:
				child = map[string]interface{}{"$ref": gen.RefText(doc, gen.RootURL, []string{"parameters", "p0"}, map[bool]string{true: "fragment", false: "abs"}[doc == gen.RootURL])}
			}
			c04Place(s, pos, child)
		}
		if doc == gen.RootURL {
			rootDefs[fmt.Sprintf("d%d", node)] = s
		} else {
			otherDefs[fmt.Sprintf("d%d", node)] = s
		}
	}
	sref := func(node int) interface{} { return map[string]interface{}{"$ref": ref("", node%g.n)} } // from outside the nodes: always by location
	// parameter
	params := map[string]interface{}{}
	switch g.pVar {
	case 0:
		params["p0"] = map[string]interface{}{"name": "p", "in": "body", "schema": sref(0)}
	case 1:
		params["p0"] = map[string]interface{}{"$ref": "#/parameters/p0"} // refers only to itself
	case 2:
		params["p0"] = map[string]interface{}{"$ref": "#/parameters/p1"}
		params["p1"] = map[string]interface{}{"$ref": "#/parameters/p2"}
		params["p2"] = map[string]interface{}{"$ref": "#/parameters/p1"} // cycle not containing the entry
	case 3:
		params["p0"] = map[string]interface{}{"$ref": "#/responses/r0"} // wrong kind
	default:
		params["p0"] = map[string]interface{}{"name": "p", "in": "body", "schema": map[string]interface{}{"allOf": []interface{}{sref(g.n - 1), sref(0)}}}
	}
	root["parameters"] = params
	resps := map[string]interface{}{}
	switch g.rVar {
	case 0:
		resps["r0"] = map[string]interface{}{"description": "r", "schema": sref(g.n - 1)}
	case 1:
		resps["r0"] = map[string]interface{}{"$ref": "#/responses/r0"}
	case 2:
		resps["r0"] = map[string]interface{}{"$ref": c04Other + "#/responses/r0"}
	default:
		resps["r0"] = map[string]interface{}{"description": "r", "schema": map[string]interface{}{"items": sref(0), "type": "array"}}
	}
	root["responses"] = resps
	paths := map[string]interface{}{}
	switch g.iVar {
	case 0:
		paths["/a"] = map[string]interface{}{"parameters": []interface{}{map[string]interface{}{"$ref": "#/parameters/p0"}},
			"get": map[string]interface{}{"responses": map[string]interface{}{"200": map[string]interface{}{"$ref": "#/responses/r0"}, "default": map[string]interface{}{"description": "d", "schema": sref(0)}}}}
	case 1:
		paths["/a"] = map[string]interface{}{"$ref": "#/paths/~1a"}
	case 2:
		paths["/a"] = map[string]interface{}{"$ref": c04Other + "#/paths/~1a"}
	default:
		paths["/a"] = map[string]interface{}{"$ref": "#/paths/~1b"}
		paths["/b"] = map[string]interface{}{"$ref": "#/paths/~1c"}
		paths["/c"] = map[string]interface{}{"$ref": "#/paths/~1b"}
	}
	root["paths"] = paths
	w.Docs[gen.RootURL] = root
	// the other document always exists (path item and response refer back into the root)
	w.Docs[c04Other] = map[string]interface{}{
		"definitions": otherDefs,
		"responses":   map[string]interface{}{"r0": map[string]interface{}{"$ref": "../root.json#/responses/r0"}},
		"paths": map[string]interface{}{"/a": map[string]interface{}{"post": map[string]interface{}{"parameters": []interface{}{map[string]interface{}{"$ref": "../root.json#/parameters/p0"}},
			"responses": map[string]interface{}{"200": map[string]interface{}{"$ref": "#/responses/r0"}}}}},
	}
	return w
}

var c04SelfPositions = []string{"not", "additionalProperties", "items", "additionalItems", "allOf/0", "properties/p", "definitions/inner", "items/1"}

func c04SelfNestedWorld(k int) *gen.World {
	pos := c04SelfPositions[k]
	inner := map[string]interface{}{"title": "inner", "properties": map[string]interface{}{"x": map[string]interface{}{"$ref": "#/definitions/a/" + pos}}}
	a := map[string]interface{}{"title": "a"}
	switch pos {
	case "allOf/0":
		a["allOf"] = []interface{}{inner}
	case "properties/p":
		a["properties"] = map[string]interface{}{"p": inner}
	case "definitions/inner":
		a["definitions"] = map[string]interface{}{"inner": inner}
	case "items/1":
		a["items"] = []interface{}{map[string]interface{}{"title": "first"}, inner}
	default:
		a[pos] = inner
	}
	root := map[string]interface{}{"swagger": "2.0", "info": map[string]interface{}{"title": "t", "version": "1"},
		"definitions": map[string]interface{}{"a": a, "user": map[string]interface{}{"title": "user", "properties": map[string]interface{}{"u": map[string]interface{}{"$ref": "#/definitions/a"}}}},
		"parameters": map[string]interface{}{"p0": map[string]interface{}{"name": "p", "in": "body", "schema": map[string]interface{}{"$ref": "#/definitions/a"}}},
		"responses":  map[string]interface{}{"r0": map[string]interface{}{"description": "r", "schema": map[string]interface{}{"$ref": "#/definitions/a"}}},
		"paths": map[string]interface{}{"/a": map[string]interface{}{"get": map[string]interface{}{"responses": map[string]interface{}{"200": map[string]interface{}{"$ref": "#/responses/r0"}}}}}}
	return &gen.World{Root: gen.RootURL, Features: map[string]int{}, Slots: 5, Docs: map[string]interface{}{gen.RootURL: root,
		c04Other: map[string]interface{}{"definitions": map[string]interface{}{}, "responses": map[string]interface{}{"r0": map[string]interface{}{"description": "r"}}, "paths": map[string]interface{}{"/a": map[string]interface{}{}}}}}
}

// enumeration sizes
func c04GraphCount(n int) int {
	c := 1
	for i := 0; i < 2*n; i++ {
		c *= c04Targets(n)
	}
	return c
}

func c04MaxNodes(env *core.Env) int {
	if env.Thorough() {
		return 3
	}
	return 2
}

// structured cases: (n, graph index, id variant) exhaustively for n<=2 (quick) / n<=3 (thorough: ids sampled for n=3); the remaining
// dimensions (layout, element variants, positions) are derived from the index.
func c04Structured(env *core.Env) int {
	total := 0
	for n := 1; n <= c04MaxNodes(env); n++ {
		per := len(c04IDVariants)
		if n == 3 {
			per = 1
		}
		total += c04GraphCount(n) * per
	}
	return total
}

func c04RandomCount(env *core.Env) int {
	if env.Thorough() {
		return 60000
	}
	return 8000
}

func c04NumCases(env *core.Env) int { return c04Structured(env) + c04RandomCount(env) }

func c04Decode(env *core.Env, idx int) c04Graph {
	for n := 1; n <= c04MaxNodes(env); n++ {
		per := len(c04IDVariants)
		if n == 3 {
			per = 1
		}
		cnt := c04GraphCount(n) * per
		if idx < cnt {
			gi := idx / per
			g := c04Graph{n: n, posSeed: idx}
			if n == 3 {
				g.idVar = c04IDVariants[idx%len(c04IDVariants)]
			} else {
				g.idVar = c04IDVariants[idx%per]
			}
			for s := 0; s < 2*n; s++ {
				g.slots = append(g.slots, gi%c04Targets(n))
				gi /= c04Targets(n)
			}
			g.twoDocs = n > 1 && (idx/3)%2 == 0
			g.pVar, g.rVar, g.iVar = idx%5, (idx/5)%4, (idx/7)%4
			return g
		}
		idx -= cnt
	}
	panic("index out of range")
}

type c04Outcome struct {
	entry  string
	opts   string
	r      expandResult
	budget int
}

// runEntry runs one entry point under the step budget.
func c04RunEntry(w *gen.World, entry string, o expandOpts, budget int, elem string) expandResult {
	var r expandResult
	ld := newLoader(w)
	h := &hookCollector{budget: budget}
	saved := spec.PathLoader
	spec.PathLoader = ld.load
	defer func() { spec.PathLoader = saved }()
	curHooks = h
	func() {
		defer func() {
			if rec := recover(); rec != nil {
				if _, ok := rec.(stepBudgetExceeded); ok {
					r.Budget = true
					return
				}
				r.Panic = fmt.Sprint(rec)
			}
		}()
		opts := &spec.ExpandOptions{RelativeBase: w.Root, SkipSchemas: o.Skip, ContinueOnError: o.Continue, AbsoluteCircularRef: o.Absolute, PathLoader: ld.load}
		typedRoot := func() *spec.Swagger {
			sw := new(spec.Swagger)
			_ = json.Unmarshal(ld.docs[w.Root], sw)
			return sw
		}
		switch entry {
		case "ExpandSpec":
			r.Err = spec.ExpandSpec(typedRoot(), opts)
		case "ExpandSchema(typed-root)":
			sw := typedRoot()
			s := spec.RefSchema(gen.CanonLocalRef("definitions", elem))
			r.Err = spec.ExpandSchema(s, sw, nil)
		case "ExpandSchema(generic-root)":
			var g interface{}
			_ = json.Unmarshal(ld.docs[w.Root], &g)
			s := spec.RefSchema(gen.CanonLocalRef("definitions", elem))
			r.Err = spec.ExpandSchema(s, g, nil)
		case "ExpandSchema(nil-root)":
			sw := typedRoot()
			s := sw.Definitions[elem]
			r.Err = spec.ExpandSchema(&s, nil, nil)
		case "ExpandSchemaWithBasePath":
			sw := typedRoot()
			s := sw.Definitions[elem]
			r.Err = spec.ExpandSchemaWithBasePath(&s, nil, opts)
		case "ExpandParameterWithRoot":
			sw := typedRoot()
			p := spec.ParamRef("#/parameters/p0")
			r.Err = spec.ExpandParameterWithRoot(p, sw, nil)
		case "ExpandParameter":
			sw := typedRoot()
			p := sw.Parameters["p0"]
			r.Err = spec.ExpandParameter(&p, w.Root)
		case "ExpandResponseWithRoot":
			sw := typedRoot()
			rr := spec.ResponseRef("#/responses/r0")
			r.Err = spec.ExpandResponseWithRoot(rr, sw, nil)
		case "ExpandResponse":
			sw := typedRoot()
			rr := sw.Responses["r0"]
			r.Err = spec.ExpandResponse(&rr, w.Root)
		}
	}()
	curHooks = nil
	r.Steps, r.MaxDepth, r.DupRef = h.steps, h.maxDepth, h.dupOnPath
	return r
}

var c04Entries = []string{"ExpandSpec", "ExpandSchema(typed-root)", "ExpandSchema(generic-root)", "ExpandSchema(nil-root)", "ExpandSchemaWithBasePath",
	"ExpandParameterWithRoot", "ExpandParameter", "ExpandResponseWithRoot", "ExpandResponse"}

func c04Run(env *core.Env, idx int) core.CaseResult {
	var res core.CaseResult
	var w, neutral *gen.World
	idVar := "none"
	withIDs := false
	desc := map[string]interface{}{}
	ns := c04Structured(env)
	if idx < ns {
		g := c04Decode(env, idx)
		w = g.build()
		if g.idVar == "reldir" {
			gn := g
			gn.idVar = "absolute"
			neutral = gn.build()
		}
		idVar = g.idVar
		withIDs = g.idVar != "none"
		desc = map[string]interface{}{"nodes": g.n, "slots": g.slots, "id": g.idVar, "two_documents": g.twoDocs, "parameter_variant": g.pVar, "response_variant": g.rVar, "pathitem_variant": g.iVar}
		res.Count("part.enumerated", 1)
		res.Count("id."+g.idVar, 1)
	} else if idx-ns < len(c04SelfPositions) {
		// a $ref that sits inside the very sub-schema it designates (#/definitions/a/not from within a.not), and a later use of a
		w = c04SelfNestedWorld(idx - ns)
		desc = map[string]interface{}{"constructed": "ref inside the sub-schema it designates", "position": c04SelfPositions[idx-ns]}
		res.Count("part.random", 1)
		res.Count("self-nested-position", 1)
	} else {
		rng := core.Rng(env.Seed, "C04", idx)
		o := gen.WorldOpts{NDocs: 1 + rng.Intn(4), Cyclic: true, Nested: rng.Intn(2) == 0, Chains: rng.Intn(2) == 0, HostileNames: rng.Intn(4) == 0,
			Elements: 2 + rng.Intn(6), MaxDepth: 1 + rng.Intn(3), RefDensity: []float64{0.4, 0.6, 0.8}[rng.Intn(3)], HTTP: rng.Intn(3) == 0,
			Dangling: []float64{0, 0.05}[rng.Intn(2)], IllTyped: []float64{0, 0.05}[rng.Intn(2)]}
		if idx%5 == 2 {
			o.HollowDoc = 0.1 // documents whose content is null
		}
		if rng.Intn(3) == 0 {
			o.IDs = 1 + rng.Intn(5)
			// relative-directory ids are a separate variant (open finding): 5 = "../up/" terminates, reldir is covered by the enumerated part
			withIDs = true
			idVar = fmt.Sprintf("random-variant-%d", o.IDs)
		}
		w = gen.GenWorld(rng, o)
		desc = map[string]interface{}{"random_world_documents": len(w.Docs), "ref_holders": w.Slots, "ids": o.IDs}
		res.Count("part.random", 1)
	}
	in := oworld(w)
	starts := oracle.SpecStarts(in, w.Root, true)
	const cap = 200000
	U := in.Unfolding(starts, cap)
	if U >= cap {
		res.Count("dropped(unfolding-too-large)", 1)
		return res
	}
	budget := 8*U + 64
	if withIDs {
		budget = 16*U + 256
	}
	if withIDs && idx >= c04Structured(env) {
		// random worlds with ids: an id that re-scopes the base (../up/) makes the same node appear under a few different bases before the
		// scopes reach their fixed point, and the oracle's unfolding does not model ids: the design's original, wider bound applies
		budget = 64*U + 1024
	}
	acyclic := in.Acyclic(starts)
	res.Hash = core.HashOf(w.Docs)
	if n := w.Features["fault.hollow-document"]; n > 0 {
		res.Count("world-with-null-document", 1)
	}
	res.NonTrivial = !acyclic || withIDs || w.Features["fault.dangling-pointer"] > 0
	desc["unfolding"] = U
	desc["budget"] = budget
	res.Sample = desc
	if !acyclic {
		res.Count("graph.cyclic", 1)
	} else {
		res.Count("graph.acyclic", 1)
	}
	root, _ := in.Docs[w.Root].(map[string]interface{})
	var defNames []string
	if defs, ok := root["definitions"].(map[string]interface{}); ok {
		for k := range defs {
			defNames = append(defNames, k)
		}
	}
	if len(defNames) > 3 {
		defNames = defNames[:3]
	}
	optSets := []expandOpts{{}, {Skip: true}, {Continue: true}, {Skip: true, Continue: true}}
	maxSteps := 0
	for _, entry := range c04Entries {
		elems := []string{""}
		if strings.HasPrefix(entry, "ExpandSchema") {
			elems = defNames
		}
		sets := optSets
		if entry != "ExpandSpec" && entry != "ExpandSchemaWithBasePath" {
			sets = optSets[:1] // these entry points take no options
		}
		for _, elem := range elems {
			for _, o := range sets {
				if idx >= ns && (o.Skip || o.Continue) && entry != "ExpandSpec" {
					continue
				}
				r := c04RunEntry(w, entry, o, budget, elem)
				res.Evals++
				res.Count("entry."+entry, 1)
				if r.Steps > maxSteps {
					maxSteps = r.Steps
				}
				wit := worldWitness(w, o, map[string]interface{}{"entry": entry, "element": elem, "graph": desc, "steps": r.Steps, "budget": budget})
				tag := ""
				if idVar == "reldir" {
					tag = " [id=relative-directory]"
				}
				switch {
				case r.Panic != "":
					res.Violate("panic "+entry+": "+errClass(fmt.Errorf("%s", r.Panic))+tag, r.Panic, wit)
				case r.Budget:
					if tag != "" && neutral != nil {
						// counterfactual attribution: the same graph with the relative-directory ids made absolute must stay within the budget
						if rn := c04RunEntry(neutral, entry, o, budget, elem); rn.Budget {
							tag = ""
						} else {
							res.Count("attributed-to-relative-directory-id(neutralised run terminates)", 1)
						}
					}
					res.Violate("step-budget-exhausted "+entry+tag, fmt.Sprintf("more than %d logical steps (unfolding of the input: %d nodes)", budget, U), wit)
				case r.DupRef != "":
					res.Violate("ref-pushed-twice-on-parent-stack "+entry+tag, r.DupRef, wit)
				}
				if r.Err != nil {
					res.Count("returned-error", 1)
				} else {
					res.Count("returned-ok", 1)
				}
			}
		}
	}
	res.Count("steps-observed", maxSteps)
	// how much of the budget the worst entry point used (evidence of the margin of the bound)
	if len(res.Violations) == 0 {
		pct := maxSteps * 100 / budget
		switch {
		case pct < 10:
			res.Count("budget-used.<10%", 1)
		case pct < 25:
			res.Count("budget-used.10-25%", 1)
		case pct < 50:
			res.Count("budget-used.25-50%", 1)
		default:
			res.Count("budget-used.>=50%", 1)
		}
	}
	return res
}

func init() {
	floors := []string{"part.enumerated", "part.random", "graph.cyclic", "graph.acyclic", "returned-error", "returned-ok", "steps-observed", "world-with-null-document", "self-nested-position"}
	for _, e := range c04Entries {
		floors = append(floors, "entry."+e)
	}
	for _, v := range c04IDVariants {
		floors = append(floors, "id."+v)
	}
	core.Register(&core.Property{
		ID:    "C04",
		Level: "exploration",
		Rule: "exhaustive part: every reference graph over n<=2 (quick) / n<=3 (thorough) schema nodes with 2 $ref slots each (target: none, any node, dangling, ill-typed, wrong kind), placed on rotating sub-schema positions, " +
			"x 7 id variants (sampled for n=3), on 1-2 documents, with parameter/response/path-item variants incl. self-references and cycles not containing the entry; each run through 9 entry points and the 4 SkipSchemas/ContinueOnError combinations; " +
			"random part: seeded G-WORLD graphs (cycles, chains, faults, ids). Budget = 8*U+64 logical steps (16*U+256 with ids, 64*U+1024 for random worlds with ids), U = size of the acyclic unfolding. non-trivial = cycle, id or dangling target; distinct by world content",
		NumCases:      c04NumCases,
		Run:           c04Run,
		Floors:        func(env *core.Env) []string { return floors },
		Exhaustive:    func(env *core.Env) bool { return true },
		ChunkTimeoutS: 1200,
		Assumptions: []string{"termination is restated as bounded progress on logical steps counted by hook H1; no finite run decides the unbounded statement",
			"a stack overflow is fatal in Go: it is observed as the death of the worker process on the case it had logged as started",
			"exhaustive = the slot-target assignments for the stated node counts; positions, id placement, layout and element variants rotate with the index"},
	})
}
