package props

import (
	"bytes"
	"encoding/gob"
	"encoding/json"
	"fmt"
	"os"
	"path/filepath"

	"github.com/go-openapi/spec"

	"verifharness/gen"
)

// WriteFindingWitnesses re-creates the committed minimal witnesses of the open findings from the current tree
// (`vcheck --findings <dir>`): each file holds the input, what the real code returned and what the property demands.
func WriteFindingWitnesses(dir string) error {
	if err := os.MkdirAll(dir, 0o755); err != nil {
		return err
	}
	write := func(name string, v interface{}) error {
		b, err := json.MarshalIndent(v, "", " ")
		if err != nil {
			return err
		}
		return os.WriteFile(filepath.Join(dir, name), append(b, '\n'), 0o644)
	}
	rt := func(kind, text string) string {
		out, _, stage, detail := roundTrip(kind, []byte(text))
		if stage != "" {
			return stage + ": " + detail
		}
		return string(out)
	}
	type c struct {
		Kind, Input, Observed, Expected string
	}
	// C01: required-but-empty members
	var req []c
	for _, x := range [][2]string{
		{"info", `{"title":"","version":"1"}`}, {"info", `{"title":"t","version":""}`}, {"license", `{"name":""}`}, {"tag", `{"name":""}`},
		{"parameter", `{"name":"","in":"query","type":"string"}`}, {"externalDocs", `{"url":""}`},
		{"securityScheme", `{"type":"apiKey","name":"","in":"header"}`}, {"securityScheme", `{"type":"oauth2","flow":"password","tokenUrl":""}`},
	} {
		req = append(req, c{x[0], x[1], rt(x[0], x[1]), x[1]})
	}
	if err := write("C01-required-empty.json", map[string]interface{}{"property": "C01 (and C19: the re-encoded document no longer validates)",
		"what": "a member the specification requires, whose value is the empty string, is dropped by the encoder (omitempty)", "cases": req,
		"reproduce": "json.Unmarshal(input, &v); json.Marshal(v) with v of the model type of the kind"}); err != nil {
		return err
	}
	x1 := `{"name":"n","x-ns":"v"}`
	if err := write("C01-xml-ext.json", map[string]interface{}{"property": "C01", "kind": "xml (inside a schema)", "input": x1, "observed": rt("xml", x1), "expected": x1,
		"what": "XMLObject has no field for vendor extensions; the Swagger 2.0 meta-schema allows ^x- on xml objects"}); err != nil {
		return err
	}
	x2 := `{"url":"http://example.com","x-audience":"internal"}`
	if err := write("C01-externaldocs-ext.json", map[string]interface{}{"property": "C01", "kind": "externalDocs", "input": x2, "observed": rt("externalDocs", x2), "expected": x2,
		"what": "ExternalDocumentation has no field for vendor extensions"}); err != nil {
		return err
	}
	x3 := `{"099":{"description":"d"}}`
	if err := write("C01-status-leading-zero.json", map[string]interface{}{"property": "C01", "kind": "responses", "input": x3, "observed": rt("responses", x3), "expected": x3,
		"what": "status codes are parsed with Atoi and printed with Itoa: a three-digit code with a leading zero (admitted by the meta-schema pattern) comes back renumbered"}); err != nil {
		return err
	}
	// C14
	gobRT := func(kind, text string) string {
		v := newTyped(kind)
		if err := json.Unmarshal([]byte(text), v); err != nil {
			return "decode error: " + err.Error()
		}
		var buf bytes.Buffer
		if err := gob.NewEncoder(&buf).Encode(v); err != nil {
			return "gob encode error: " + err.Error()
		}
		fresh := newTyped(kind)
		if err := gob.NewDecoder(&buf).Decode(fresh); err != nil {
			return "gob decode error: " + err.Error()
		}
		b, _ := json.Marshal(fresh)
		return string(b)
	}
	g1 := `{"type":"integer","minimum":0,"maxLength":0}`
	if err := write("C14-zero-validation.json", map[string]interface{}{"property": "C14", "kind": "schema (same for parameter, header, items)", "input": g1,
		"json_before_gob": rt("schema", g1), "json_after_gob": gobRT("schema", g1), "what": "gob omits zero values behind pointers: minimum: 0 and maxLength: 0 are absent after transport"}); err != nil {
		return err
	}
	g2 := `{"type":"array","default":[],"example":{"a":[]},"x-list":[]}`
	if err := write("C14-empty-array.json", map[string]interface{}{"property": "C14", "kind": "schema", "input": g2,
		"json_before_gob": rt("schema", g2), "json_after_gob": gobRT("schema", g2), "what": "gob does not transmit empty slices: empty arrays in free-form payloads come back as null"}); err != nil {
		return err
	}
	// C04: relative-directory id on a cycle
	w := &gen.World{Root: gen.RootURL, Features: map[string]int{}, Docs: map[string]interface{}{gen.RootURL: map[string]interface{}{
		"swagger": "2.0", "info": map[string]interface{}{"title": "t", "version": "1"}, "paths": map[string]interface{}{},
		"definitions": map[string]interface{}{"d0": map[string]interface{}{"id": "sub/", "properties": map[string]interface{}{"next": map[string]interface{}{"$ref": "#/definitions/d0"}}}},
	}}}
	r := c04RunEntry(w, "ExpandSpec", expandOpts{}, 500, "")
	wn := &gen.World{Root: gen.RootURL, Features: map[string]int{}, Docs: map[string]interface{}{gen.RootURL: map[string]interface{}{
		"swagger": "2.0", "info": map[string]interface{}{"title": "t", "version": "1"}, "paths": map[string]interface{}{},
		"definitions": map[string]interface{}{"d0": map[string]interface{}{"id": "http://ids.example/base/s0.json", "properties": map[string]interface{}{"next": map[string]interface{}{"$ref": "#/definitions/d0"}}}},
	}}}
	rn := c04RunEntry(wn, "ExpandSpec", expandOpts{}, 500, "")
	if err := write("C04-relative-directory-id.json", map[string]interface{}{"property": "C04", "entry": "ExpandSpec (every entry point behaves alike)", "root": gen.RootURL, "documents": w.Docs,
		"observed": fmt.Sprintf("step budget of 500 exhausted=%v after %d logical steps (the acyclic unfolding of this input has 3 nodes); without a budget the call recurses until the stack overflows", r.Budget, r.Steps),
		"same_graph_with_absolute_id": fmt.Sprintf("terminates: budget exhausted=%v, %d steps, error=%v", rn.Budget, rn.Steps, rn.Err),
		"what": "each re-entry of the schema re-applies the relative-directory id to the already rebased base path (…/sub/placeholder.json, …/sub/sub/placeholder.json, …): the normalised $ref is new every time and is never recognised as circular"}); err != nil {
		return err
	}
	// C08: verbatim unresolvable $ref re-read from the root's directory
	w8 := &gen.World{Root: gen.RootURL, Features: map[string]int{}, Docs: map[string]interface{}{
		gen.RootURL: map[string]interface{}{"swagger": "2.0", "info": map[string]interface{}{"title": "t", "version": "1"}, "paths": map[string]interface{}{},
			"definitions": map[string]interface{}{"d0": map[string]interface{}{"$ref": "../other.json#/definitions/d0"}},
			"responses":   map[string]interface{}{"r0": map[string]interface{}{"description": "r", "schema": map[string]interface{}{"$ref": "#/definitions/d0"}}}},
		"file:///w/other.json": map[string]interface{}{"definitions": map[string]interface{}{"d0": map[string]interface{}{"title": "other:d0", "properties": map[string]interface{}{"p": map[string]interface{}{"$ref": "./x.json#/definitions/d0"}}}}},
		"file:///w/x.json":     map[string]interface{}{"definitions": map[string]interface{}{"d0": map[string]interface{}{"title": "the document the $ref designates (refused by the loader)"}}},
		"file:///w/a/x.json":   map[string]interface{}{"definitions": map[string]interface{}{"d0": map[string]interface{}{"title": "a document of the same name next to the root"}}},
	}}
	r8 := runExpandSpec(w8, expandOpts{Continue: true, Refuse: map[string]bool{"file:///w/x.json": true}})
	if err := write("C08-verbatim-reread.json", map[string]interface{}{"property": "C08", "entry": "ExpandSpec", "options": "ContinueOnError", "loader_refuses": []string{"file:///w/x.json"},
		"root": gen.RootURL, "documents": w8.Docs, "observed_output": r8.Out, "observed_error": fmt.Sprint(r8.Err),
		"expected": "/responses/r0/schema/properties/p stays {\"$ref\": \"./x.json#/definitions/d0\"} (as /definitions/d0/properties/p does)",
		"what": "definitions are expanded first and stored back into the in-memory root with the unresolvable $ref verbatim; the response's #/definitions/d0 then reads that expanded definition, and the verbatim relative text is resolved again, now against the root's directory, where x.json is another document"}); err != nil {
		return err
	}
	_ = spec.Debug
	return nil
}
