package props

import (
	"bytes"
	"encoding/json"
	"fmt"
	"net/url"
	"os"
	"path"
	"sort"
	"strings"

	"github.com/go-openapi/spec"

	"verifharness/core"
	"verifharness/gen"
	"verifharness/oracle"
)

// C11 — the root location may be spelled in any equivalent way.

func c11NumCases(env *core.Env) int {
	if env.Thorough() {
		return 5000
	}
	return 1200
}

// relocate moves every file:/// document of a world under a new prefix (scheme://host/dir, no trailing slash).
func relocate(w *gen.World, prefix string) *gen.World {
	pu, _ := url.Parse(prefix)
	mapURL := func(u string) string {
		if strings.HasPrefix(u, "file:///") {
			return prefix + "/" + strings.TrimPrefix(u, "file:///")
		}
		return u
	}
	var walk func(v interface{}) interface{}
	walk = func(v interface{}) interface{} {
		switch x := v.(type) {
		case map[string]interface{}:
			m := map[string]interface{}{}
			for k, val := range x {
				if s, ok := val.(string); ok && k == "$ref" {
					switch {
					case strings.HasPrefix(s, "file:///"):
						s = mapURL(s)
					case strings.HasPrefix(s, "/"):
						s = pu.Path + s // root-relative path
					}
					m[k] = s
					continue
				}
				m[k] = walk(val)
			}
			return m
		case []interface{}:
			a := make([]interface{}, len(x))
			for i, val := range x {
				a[i] = walk(val)
			}
			return a
		}
		return v
	}
	nw := &gen.World{Docs: map[string]interface{}{}, Root: mapURL(w.Root), Features: w.Features, Slots: w.Slots}
	for u, d := range w.Docs {
		nw.Docs[mapURL(u)] = walk(d)
	}
	return nw
}

type spelling struct {
	text     string
	rewrites []string
}

// spellings derives equivalent spellings of a canonical location by the rewrites the property lists.
func spellings(canon string, cwd string, r interface{ Intn(int) int }, n int) []spelling {
	u, _ := url.Parse(canon)
	isFile := u.Scheme == "file"
	out := []spelling{}
	for k := 0; k < n; k++ {
		// choose 1-4 rewrites, then apply them in a fixed order
		names := []string{"dot-segments", "double-slash", "upper-case-scheme", "fragment"}
		if isFile {
			names = append(names, "query", "file-one-slash", "bare-absolute-path")
			if strings.HasPrefix(u.Path, cwd+"/") {
				names = append(names, "relative-path")
			}
			if u.EscapedPath() != u.Path && !strings.ContainsAny(u.Path, " %?#") {
				names = append(names, "sub-delims-as-written") // file:///w/a(b)/x.json for file:///w/a%28b%29/x.json
			}
		}
		chosen := map[string]bool{}
		for i, m := 0, 1+r.Intn(4); i < m; i++ {
			chosen[names[r.Intn(len(names))]] = true
		}
		// mutually exclusive ways of writing the front part
		front := 0
		for _, f := range []string{"file-one-slash", "bare-absolute-path", "relative-path"} {
			if chosen[f] {
				front++
				if front > 1 {
					delete(chosen, f)
				}
			}
		}
		if chosen["bare-absolute-path"] || chosen["relative-path"] {
			delete(chosen, "upper-case-scheme") // no scheme to write
		}
		p := u.EscapedPath()
		if chosen["sub-delims-as-written"] || chosen["bare-absolute-path"] || chosen["relative-path"] {
			p = u.Path // plain paths are not URLs: nothing is escaped in them
		}
		relative := chosen["relative-path"]
		if relative {
			p = strings.TrimPrefix(p, cwd+"/")
		} else {
			p = strings.TrimPrefix(p, "/")
		}
		segs := strings.Split(p, "/")
		if chosen["dot-segments"] {
			at := r.Intn(len(segs))
			ins := []string{".", "zz/.."}[r.Intn(2)]
			segs = append(segs[:at], append([]string{ins}, segs[at:]...)...)
		}
		if chosen["double-slash"] {
			if len(segs) > 1 {
				at := r.Intn(len(segs)) // also right after the authority: file:////w/a/root.json
				if at == 0 && (relative || chosen["file-one-slash"] || chosen["bare-absolute-path"]) {
					at = 1 // "file://w/…" and "//w/…" would name a host
				}
				segs[at] = "/" + segs[at]
			} else {
				delete(chosen, "double-slash")
			}
		}
		text := strings.Join(segs, "/")
		switch {
		case relative:
			switch r.Intn(4) {
			case 0:
				text = "./" + text
			case 1, 2:
				// climbing out of the working directory and coming back in: ../<dir>/…, ../../<parent>/<dir>/…, …
				cs := strings.Split(strings.Trim(cwd, "/"), "/")
				if k := 1 + r.Intn(3); k <= len(cs) && !chosen["double-slash"] {
					text = strings.Repeat("../", k) + strings.Join(cs[len(cs)-k:], "/") + "/" + text
					chosen["relative-path-climbing"] = true
				}
			}
		case chosen["bare-absolute-path"]:
			text = "/" + text
		case chosen["file-one-slash"] && chosen["upper-case-scheme"]:
			text = "FILE:/" + text
		case chosen["file-one-slash"]:
			text = "file:/" + text
		case chosen["upper-case-scheme"]:
			text = strings.ToUpper(u.Scheme) + "://" + u.Host + "/" + text
		default:
			text = u.Scheme + "://" + u.Host + "/" + text
		}
		if chosen["query"] {
			text += "?raw=true"
		}
		if chosen["fragment"] {
			text += []string{"#", "#/definitions/d0", "#frag"}[r.Intn(3)]
		}
		var rw []string
		for _, nme := range append(names, "relative-path-climbing") {
			if chosen[nme] {
				rw = append(rw, nme)
			}
		}
		if len(rw) == 0 || text == canon {
			continue
		}
		out = append(out, spelling{text, rw})
	}
	return out
}

func canonicalRequest(u string) string {
	pu, err := url.Parse(u)
	switch {
	case err != nil:
		return "unparsable"
	case pu.Scheme == "":
		return "no scheme"
	case pu.Scheme != strings.ToLower(pu.Scheme):
		return "scheme not lower-case"
	case !strings.HasPrefix(pu.Path, "/"):
		return "path not absolute"
	case path.Clean(pu.Path) != pu.Path:
		return "path not clean"
	case pu.Fragment != "" || strings.HasSuffix(u, "#"):
		return "fragment present"
	case pu.Scheme == "file" && pu.RawQuery != "":
		return "query on a file location"
	}
	return ""
}

type c11Outcome struct {
	out      []byte
	errText  string
	requests []string
}

func c11Expand(w *gen.World, base string, mode int) c11Outcome {
	ld := newLoader(w)
	var o c11Outcome
	opts := &spec.ExpandOptions{RelativeBase: base, PathLoader: ld.load}
	var err error
	var pan string
	switch mode {
	case 0:
		sw := new(spec.Swagger)
		_ = json.Unmarshal(ld.docs[w.Root], sw)
		err, pan = guard(func() error { return spec.ExpandSpec(sw, opts) })
		if err == nil && pan == "" {
			o.out, _ = json.Marshal(sw)
		}
	case 1:
		// a schema that refers to the root document by a relative file name and to a definition of it
		s := spec.RefSchema(path.Base(mustPath(w.Root)) + "#/definitions/d0")
		err, pan = guard(func() error { return spec.ExpandSchemaWithBasePath(s, nil, opts) })
		if err == nil && pan == "" {
			o.out, _ = json.Marshal(s)
		}
	case 4, 5:
		// the entry points that take the base as a plain argument and know only the package-level loader: a body parameter / a response
		// whose schema is a one-node cycle in a document next to the root (one cut-point, written relative to the root: deterministic)
		cyc := path.Dir(mustPath(w.Root)) + "/c11cycle.json"
		u, _ := url.Parse(w.Root)
		u.Path, u.RawPath = cyc, ""
		ld.docs[u.String()] = []byte(`{"definitions":{"node":{"title":"node","properties":{"next":{"$ref":"#/definitions/node"}}}}}`)
		saved := spec.PathLoader
		spec.PathLoader = ld.load
		if mode == 4 {
			p := new(spec.Parameter)
			_ = json.Unmarshal([]byte(`{"name":"b","in":"body","schema":{"$ref":"c11cycle.json#/definitions/node"}}`), p)
			err, pan = guard(func() error { return spec.ExpandParameter(p, base) })
			if err == nil && pan == "" {
				o.out, _ = json.Marshal(p)
			}
		} else {
			r := new(spec.Response)
			_ = json.Unmarshal([]byte(`{"description":"r","schema":{"items":{"$ref":"c11cycle.json#/definitions/node"},"type":"array"}}`), r)
			err, pan = guard(func() error { return spec.ExpandResponse(r, base) })
			if err == nil && pan == "" {
				o.out, _ = json.Marshal(r)
			}
		}
		spec.PathLoader = saved
	case 3:
		// a schema that names itself with an id and contains a cycle: how the cut-points are written must not depend on the spelling
		s := new(spec.Schema)
		_ = json.Unmarshal([]byte(`{"id":"http://ids.example/c11/tree.json","title":"tree","properties":{"n":{"$ref":"#/definitions/node"}},"definitions":{"node":{"title":"node","properties":{"next":{"$ref":"#/definitions/node"}}}}}`), s)
		err, pan = guard(func() error { return spec.ExpandSchemaWithBasePath(s, nil, opts) })
		if err == nil && pan == "" {
			o.out, _ = json.Marshal(s)
		}
	default:
		ref := spec.MustCreateRef("#/definitions/d0")
		var s *spec.Schema
		err, pan = guard(func() error {
			var e error
			s, e = spec.ResolveRefWithBase(nil, &ref, opts)
			return e
		})
		if err == nil && pan == "" {
			o.out, _ = json.Marshal(s)
		}
	}
	if pan != "" {
		o.errText = "panic: " + pan
	} else if err != nil {
		o.errText = err.Error()
	}
	o.requests = ld.requests
	return o
}

func mustPath(u string) string {
	pu, _ := url.Parse(u)
	return pu.Path
}

func c11Run(env *core.Env, idx int) core.CaseResult {
	var res core.CaseResult
	rng := core.Rng(env.Seed, "C11", idx)
	symlinked := false
	// relative spellings are taken against a real working directory
	if env.Workdir != "" {
		// the working directory changes from case to case: a relative spelling is taken against the current one
		k := (idx / 3) % 3
		// two of the three directories carry characters that net/url escapes by default but accepts as written
		d := fmt.Sprintf("%s/%s", env.Workdir, []string{"cwd0", "cw(1)", "my specs!2'*"}[k])
		if (idx/9)%2 == 1 {
			// every other round the working directory is reached through a symbolic link, and the documents exist on disk there:
			// the logical path is the location, however it is spelled
			_ = os.MkdirAll(fmt.Sprintf("%s/real%d/cwd", env.Workdir, k), 0o755)
			link := fmt.Sprintf("%s/link%d", env.Workdir, k)
			if _, err := os.Lstat(link); err != nil {
				_ = os.Symlink(fmt.Sprintf("real%d", k), link)
			}
			d = link + "/cwd"
			symlinked = true
		} else {
			_ = os.MkdirAll(d, 0o755)
		}
		_ = os.Setenv("PWD", d)
		_ = os.Chdir(d)
	}
	cwd, err := os.Getwd()
	if err != nil {
		res.Inconcl = "no working directory: " + err.Error()
		return res
	}
	_ = os.Setenv("PWD", cwd)
	o := gen.WorldOpts{NDocs: 2 + rng.Intn(2), Cyclic: idx%4 == 3, Nested: rng.Intn(2) == 0, HTTP: false, Elements: 2, MaxDepth: 1 + rng.Intn(2), RefDensity: 0.5, Chains: rng.Intn(4) == 0}
	w0 := gen.GenWorld(rng, o)
	var prefix, kind string
	switch idx % 3 {
	case 0:
		prefix, kind = "file://"+(&url.URL{Path: cwd}).EscapedPath(), "file" // the canonical location: default escaping
	case 1:
		prefix, kind = "http://root.example/base", "http"
	default:
		prefix, kind = "https://root.example:8443/base", "https"
	}
	w := relocate(w0, prefix)
	res.Count("scheme."+kind, 1)
	if symlinked && kind == "file" {
		for u, d := range w.Docs {
			p := mustPath(u)
			_ = os.MkdirAll(path.Dir(p), 0o755)
			b, _ := json.Marshal(d)
			_ = os.WriteFile(p, b, 0o644)
		}
		res.Count("working-directory-behind-a-symlink(documents-on-disk)", 1)
	}
	in := oworld(w)
	acyclic := in.Acyclic(oracle.SpecStarts(in, w.Root, true))
	res.Hash = core.HashOf(w.Docs)
	// idempotence of the normaliser on canonical locations
	for u := range w.Docs {
		if nb := spec.VerifNormalizeBase(u); nb != u {
			res.Violate("normalizeBase-not-idempotent-on-canonical-location", fmt.Sprintf("%q -> %q", u, nb), map[string]interface{}{"location": u})
		}
		res.Evals++
	}
	sps := spellings(w.Root, cwd, rng, 24)
	nontrivial := 0
	for mode, entry := range []string{"ExpandSpec", "ExpandSchemaWithBasePath", "ResolveRefWithBase", "ExpandSchemaWithBasePath(schema-with-id)", "ExpandParameter", "ExpandResponse"} {
		ref := c11Expand(w, w.Root, mode)
		res.Evals++
		if ref.errText != "" && mode == 0 {
			res.Count("canonical-run-failed", 1)
			continue
		}
		for _, sp := range sps {
			got := c11Expand(w, sp.text, mode)
			res.Evals++
			nontrivial++
			for _, rwn := range sp.rewrites {
				res.Count("rewrite."+rwn, 1)
			}
			res.Count("entry."+entry, 1)
			wit := map[string]interface{}{"canonical": w.Root, "spelling": sp.text, "rewrites": sp.rewrites, "entry": entry, "documents": w.Docs, "cwd": cwd,
				"requests_canonical": ref.requests, "requests_spelling": got.requests}
			cl := entry + " [" + strings.Join(sp.rewrites, "+") + "]"
			for _, rq := range got.requests {
				if why := canonicalRequest(rq); why != "" {
					res.Violate("non-canonical-loader-request ("+why+") "+cl, fmt.Sprintf("spelling %q: loader asked for %q", sp.text, rq), wit)
					break
				}
			}
			if (got.errText == "") != (ref.errText == "") {
				res.Violate("spelling-changes-outcome "+cl, fmt.Sprintf("canonical %q: %q; spelling %q: %q", w.Root, ref.errText, sp.text, got.errText), wit)
				continue
			}
			a, b := append([]string{}, ref.requests...), append([]string{}, got.requests...)
			sort.Strings(a)
			sort.Strings(b)
			if (acyclic || mode > 0) && strings.Join(uniq(a), " ") != strings.Join(uniq(b), " ") {
				res.Violate("spelling-changes-loader-requests "+cl, fmt.Sprintf("canonical: %v; spelling %q: %v", uniq(a), sp.text, uniq(b)), wit)
				continue
			}
			if (acyclic || mode >= 2) && !bytes.Equal(ref.out, got.out) {
				res.Violate("spelling-changes-result "+cl, fmt.Sprintf("spelling %q gives %s instead of %s", sp.text, core.Abbrev(string(got.out), 200), core.Abbrev(string(ref.out), 200)), wit)
			} else if !acyclic && mode == 0 && got.errText == "" {
				var out interface{}
				_ = json.Unmarshal(got.out, &out)
				if mm, _ := monitorMeaning(in, w.Root, out, true); len(mm) > 0 {
					res.Violate("spelling-changes-meaning "+cl, mm[0], wit)
				}
			}
		}
	}
	res.NonTrivial = nontrivial > 0
	var ex []string
	for i, sp := range sps {
		if i < 4 {
			ex = append(ex, sp.text)
		}
	}
	res.Sample = map[string]interface{}{"canonical": w.Root, "spellings": ex}
	return res
}

func uniq(a []string) []string {
	var out []string
	for i, s := range a {
		if i == 0 || s != a[i-1] {
			out = append(out, s)
		}
	}
	return out
}

func init() {
	core.Register(&core.Property{
		ID:    "C11",
		Level: "exploration",
		Rule: "multi-document worlds relocated under the worker's real working directory (file), an http and an https host; up to 24 spellings of the root location per world, each a combination of 1-4 of the listed rewrites " +
			"(./ and x/../ segments, doubled slashes, upper-case scheme also with one slash, trailing fragment, trailing query for files, file:/ with one slash, bare absolute path, path relative to the working directory - also climbing one to three levels out of it and back in); " +
			"through ExpandSpec, ExpandSchemaWithBasePath (also of a cyclic schema that names itself with an id) and ResolveRefWithBase. monitors: same outcome, same set of loader requests and byte-identical result as with the canonical spelling (cyclic worlds: bisimilar), " +
			"every loader request canonical (scheme, absolute clean path, no fragment, no query on files), normalizeBase idempotent on canonical locations. non-trivial = spelling differs from the canonical text",
		NumCases: c11NumCases,
		Run:      c11Run,
		// a process must live through several changes of working directory
		ChunkSize: 24,
		Floors: func(env *core.Env) []string {
			return []string{"scheme.file", "scheme.http", "scheme.https", "rewrite.dot-segments", "rewrite.double-slash", "rewrite.upper-case-scheme", "rewrite.fragment", "rewrite.query",
				"rewrite.file-one-slash", "rewrite.bare-absolute-path", "rewrite.relative-path", "working-directory-behind-a-symlink(documents-on-disk)", "entry.ExpandSpec", "entry.ExpandSchemaWithBasePath", "entry.ResolveRefWithBase", "entry.ExpandSchemaWithBasePath(schema-with-id)", "entry.ExpandParameter", "entry.ExpandResponse"}
		},
		Assumptions: []string{"only the rewrites the statement lists are applied (no host-case or default-port rewrites)",
			"the working directory of the worker is a real scratch directory, every other round reached through a symbolic link (PWD is set to the logical path, which is the location the documents are known under)"},
	})
}
