package props

import (
	"bytes"
	"encoding/gob"
	"encoding/json"
	"fmt"
	"math/rand"
	"reflect"
	"strings"

	"github.com/go-openapi/spec"

	"verifharness/core"
	"verifharness/oracle"
)

// C13 — reference values canonicalise idempotently and survive JSON and gob.

var (
	c13Schemes = []string{"", "http:", "HTTP:", "https:", "HttpS:", "file:", "FILE:", "ftp:", "x-custom+1:", "urn:spec:\"quoted\":"}
	c13Auth    = []string{"", "//example.com", "//EXAMPLE.Com", "//example.com:80", "//example.com:443", "//example.com:8080", "//127.0.0.1", "//127.0.0.1:80",
		"//[::1]", "//[2001:DB8::1]:443", "//host.example:080", "//", "//user@example.com", "//xn--e1afmkfd.example"}
	c13Paths = []string{"", "/", "/a/b.json", "a/b.json", "/a//b///c.json", "/a/../b/./c.json", "/a%20b.json", "/a b.json", "/é.json", "/%C3%A9.json",
		"/a%2Fb.json", "../up/x.json", "./x.json", "/A/B.JSON", "/~user/x.json", "/a+b.json", "/a;p=1/b", "c:/win/x.json", "/{id}.json", "/x.json/"}
	c13Query = []string{"", "?q=1", "?q=a%20b&r=%C3%A9", "?", "?a=/b//c", "?f=\"pets\"", "?q=a\\b", "?rev= ", "?q=x y\u00a0"} // the last two end in white space
	c13Frag  = []string{"", "#", "#/definitions/a", "#/a~1b/c~0d", "#/a%20b", "#/é", "#/a b", "#frag", "#/a%2Fb", "#/%7E", "#/definitions//x", "#/0/1", "#/a%25b", "#/a\"b", "#/a%7Bid%7D"}
)

const c13Batch = 64

func c13Total() int {
	return len(c13Schemes) * len(c13Auth) * len(c13Paths) * len(c13Query) * len(c13Frag)
}

func c13Enum(i int) string {
	f := c13Frag[i%len(c13Frag)]
	i /= len(c13Frag)
	q := c13Query[i%len(c13Query)]
	i /= len(c13Query)
	p := c13Paths[i%len(c13Paths)]
	i /= len(c13Paths)
	a := c13Auth[i%len(c13Auth)]
	i /= len(c13Auth)
	s := c13Schemes[i%len(c13Schemes)]
	return s + a + p + q + f
}

func c13Random(r *rand.Rand) string {
	if r.Intn(16) == 0 {
		// long references whose canonical text is much longer than what was written (percent-encoding triples it)
		unit := []string{"é ", "日本 ", "a b", "ü/"}[r.Intn(4)]
		body := strings.Repeat(unit, 150+r.Intn(500))
		switch r.Intn(3) {
		case 0:
			return "http://example.com/" + body + ".json#/definitions/x"
		case 1:
			return "#/definitions/" + body
		}
		return body + "/doc.json"
	}
	segs := []string{"a", "B", "é", "%C3%A9", "a%20b", "a b", "..", ".", "x.json", "~", "a%2Fb", "", "{id}", "a+b", "%7E", "%41", "%7e", "a:b"}
	var sb strings.Builder
	sb.WriteString(c13Schemes[r.Intn(len(c13Schemes))])
	sb.WriteString(c13Auth[r.Intn(len(c13Auth))])
	n := r.Intn(6)
	for i := 0; i < n; i++ {
		if i > 0 || r.Intn(2) == 0 {
			sb.WriteByte('/')
		}
		sb.WriteString(segs[r.Intn(len(segs))])
	}
	sb.WriteString(c13Query[r.Intn(len(c13Query))])
	if r.Intn(3) != 0 {
		sb.WriteString("#")
		m := r.Intn(5)
		for i := 0; i < m; i++ {
			sb.WriteByte('/')
			sb.WriteString([]string{"definitions", "a~1b", "c~0d", "é", "a%20b", "a b", "0", "", "%2F", "a%25b", "~"}[r.Intn(11)])
		}
	}
	return sb.String()
}

type refView struct {
	Text                                                                    string
	HasFullURL, HasURLPathOnly, HasFragmentOnly, HasFileScheme, HasFullPath bool
	IsRoot, IsCanonical, NilURL                                             bool
	Tokens                                                                  []string
	Scheme, Host, Path, RawQuery, Fragment                                  string
}

func viewRef(r *spec.Ref) refView {
	v := refView{Text: r.String(), HasFullURL: r.HasFullURL, HasURLPathOnly: r.HasURLPathOnly, HasFragmentOnly: r.HasFragmentOnly,
		HasFileScheme: r.HasFileScheme, HasFullPath: r.HasFullFilePath, IsCanonical: r.IsCanonical(), Tokens: r.GetPointer().DecodedTokens()}
	if u := r.GetURL(); u != nil {
		v.IsRoot = r.IsRoot()
		v.Scheme, v.Host, v.Path, v.RawQuery, v.Fragment = u.Scheme, u.Host, u.Path, u.RawQuery, u.Fragment
	} else {
		v.NilURL = true
	}
	if len(v.Tokens) == 0 {
		v.Tokens = nil
	}
	return v
}

func c13NumCases(env *core.Env) int {
	n := (c13Total() + c13Batch - 1) / c13Batch
	if env.Thorough() {
		return n + 12000
	}
	return n + 600
}

func c13Check(res *core.CaseResult, s string) {
	var r1 spec.Ref
	err, pan := guard(func() error {
		var e error
		r1, e = spec.NewRef(s)
		return e
	})
	wit := map[string]interface{}{"ref": s}
	if pan != "" {
		res.Violate("NewRef-panic", pan, wit)
		return
	}
	if err != nil {
		res.Count("rejected", 1)
		return
	}
	res.Evals++
	v1 := viewRef(&r1)
	if v1.Text != s || strings.Contains(s, "#") {
		res.Count("nontrivial", 1)
	}
	// (a) printing parses back to an equal reference
	r2, err := spec.NewRef(v1.Text)
	if err != nil {
		res.Violate("canonical-text-unparsable", fmt.Sprintf("%q -> %q: %v", s, v1.Text, err), wit)
		return
	}
	v2 := viewRef(&r2)
	if !reflect.DeepEqual(v1, v2) {
		res.Violate("canonicalisation-not-idempotent "+c13FieldDiff(v1, v2), fmt.Sprintf("%q: first %+v second %+v", s, v1, v2), wit)
	}
	// (b) JSON shape and round trip
	b, err := json.Marshal(r1)
	if err != nil {
		res.Violate("ref-json-encode-error", fmt.Sprintf("%q: %v", s, err), wit)
		return
	}
	g, perr := oracle.Parse(b)
	if perr != nil {
		res.Violate("ref-json-invalid", fmt.Sprintf("%q -> %s", s, b), wit)
		return
	}
	if v1.Text != "" {
		want := map[string]interface{}{"$ref": v1.Text}
		if !oracle.Equal(g, want) {
			res.Violate("ref-json-shape", fmt.Sprintf("%q encodes as %s, want {\"$ref\":%q}", s, b, v1.Text), wit)
		}
	}
	var r3 spec.Ref
	if err := json.Unmarshal(b, &r3); err != nil {
		res.Violate("ref-json-decode-error", fmt.Sprintf("%q -> %s: %v", s, b, err), wit)
	} else if v3 := viewRef(&r3); !reflect.DeepEqual(v1, v3) {
		res.Violate("ref-json-roundtrip "+c13FieldDiff(v1, v3), fmt.Sprintf("%q: %+v -> %s -> %+v", s, v1, b, v3), wit)
	}
	// (c) gob round trip
	var buf bytes.Buffer
	var r4 spec.Ref
	err, pan = guard(func() error {
		if e := gob.NewEncoder(&buf).Encode(r1); e != nil {
			return e
		}
		return gob.NewDecoder(&buf).Decode(&r4)
	})
	if pan != "" || err != nil {
		res.Violate("ref-gob-error", fmt.Sprintf("%q: %v %s", s, err, pan), wit)
	} else if v4 := viewRef(&r4); !reflect.DeepEqual(v1, v4) {
		res.Violate("ref-gob-roundtrip "+c13FieldDiff(v1, v4), fmt.Sprintf("%q: %+v -> %+v", s, v1, v4), wit)
	}
}

// c13Sequence encodes a whole batch first and decodes afterwards: an encoding must stay valid after later encodings
// (the exported GobEncode/MarshalJSON methods return byte slices the caller owns).
func c13Sequence(res *core.CaseResult, strs []string) {
	type enc struct {
		s        string
		view     refView
		gobBytes []byte
		jsonText []byte
	}
	var encs []enc
	for _, s := range strs {
		r, err := spec.NewRef(s)
		if err != nil {
			continue
		}
		e := enc{s: s, view: viewRef(&r)}
		err, pan := guard(func() error {
			var e1, e2 error
			e.gobBytes, e1 = r.GobEncode()
			e.jsonText, e2 = r.MarshalJSON()
			if e1 != nil {
				return e1
			}
			return e2
		})
		if err != nil || pan != "" {
			continue // reported by the per-string check
		}
		encs = append(encs, e)
	}
	for _, e := range encs {
		wit := map[string]interface{}{"ref": e.s, "batch": strs}
		var r spec.Ref
		err, pan := guard(func() error { return r.GobDecode(e.gobBytes) })
		res.Evals++
		if err != nil || pan != "" {
			res.Violate("ref-gob-bytes-invalid-after-later-encodings", fmt.Sprintf("%q: %v %s", e.s, err, pan), wit)
		} else if v := viewRef(&r); !reflect.DeepEqual(v, e.view) {
			res.Violate("ref-gob-bytes-changed-by-later-encodings "+c13FieldDiff(e.view, v), fmt.Sprintf("%q decodes as %q after other references were encoded", e.s, v.Text), wit)
		}
		var rj spec.Ref
		if err := rj.UnmarshalJSON(e.jsonText); err != nil {
			res.Violate("ref-json-bytes-invalid-after-later-encodings", fmt.Sprintf("%q: %v", e.s, err), wit)
		} else if v := viewRef(&rj); !reflect.DeepEqual(v, e.view) {
			res.Violate("ref-json-bytes-changed-by-later-encodings "+c13FieldDiff(e.view, v), fmt.Sprintf("%q decodes as %q", e.s, v.Text), wit)
		}
	}
	res.Count("sequence-checked", len(encs))
}

func c13FieldDiff(a, b refView) string {
	va, vb := reflect.ValueOf(a), reflect.ValueOf(b)
	var out []string
	for i := 0; i < va.NumField(); i++ {
		if !reflect.DeepEqual(va.Field(i).Interface(), vb.Field(i).Interface()) {
			out = append(out, va.Type().Field(i).Name)
		}
	}
	if len(out) > 3 {
		out = out[:3]
	}
	return strings.Join(out, ",")
}

func c13Run(env *core.Env, idx int) core.CaseResult {
	var res core.CaseResult
	nEnum := (c13Total() + c13Batch - 1) / c13Batch
	var strs []string
	if idx == 0 {
		// the zero reference encodes as an empty object and survives both transports
		var z spec.Ref
		b, err := json.Marshal(z)
		if err != nil || string(b) != "{}" {
			res.Violate("zero-ref-json-shape", fmt.Sprintf("%s %v", b, err), nil)
		}
		var back spec.Ref
		if err := json.Unmarshal(b, &back); err != nil || back.String() != "" || back.GetURL() != nil {
			res.Violate("zero-ref-json-roundtrip", fmt.Sprintf("%v %q", err, back.String()), nil)
		}
		var buf bytes.Buffer
		var zb spec.Ref
		if err := gob.NewEncoder(&buf).Encode(z); err != nil {
			res.Violate("zero-ref-gob", err.Error(), nil)
		} else if err := gob.NewDecoder(&buf).Decode(&zb); err != nil || zb.String() != "" {
			res.Violate("zero-ref-gob", fmt.Sprintf("%v %q", err, zb.String()), nil)
		}
		res.Count("zero-ref", 1)
		res.Evals += 3
	}
	if idx < nEnum {
		for i := idx * c13Batch; i < (idx+1)*c13Batch && i < c13Total(); i++ {
			strs = append(strs, c13Enum(i))
		}
		res.Count("part.enumerated", len(strs))
	} else {
		r := core.Rng(env.Seed, "C13", idx)
		for i := 0; i < c13Batch; i++ {
			strs = append(strs, c13Random(r))
		}
		res.Count("part.random", len(strs))
	}
	for _, s := range strs {
		c13Check(&res, s)
	}
	c13Sequence(&res, strs)
	res.Hash = core.HashOf(strs)
	res.NonTrivial = res.Cover["nontrivial"] > 0
	res.Sample = strs[:4]
	return res
}

func init() {
	core.Register(&core.Property{
		ID:    "C13",
		Level: "exploration",
		Rule: "reference strings from a grammar: scheme (any case) x authority (none, host, host:port incl. default ports, IPv4, IPv6 literal, userinfo) x path shapes x query x fragment shapes (pointer escapes, spaces, non-ASCII) - " +
			"the full product is enumerated, plus seeded random longer strings; case = batch of 64 strings; non-trivial = batch contains a string that is not its own canonical form or has a fragment; distinct by batch content",
		NumCases: c13NumCases,
		Run:      c13Run,
		Floors:   func(env *core.Env) []string { return []string{"part.enumerated", "part.random", "zero-ref", "nontrivial", "sequence-checked"} },
		Exhaustive: func(env *core.Env) bool { return false },
		Assumptions: []string{"strings that NewRef rejects are outside the property's domain and only counted",
			"for the text-empty non-zero references (\"\" and \"#\") only the round-trip laws are required, not the {\"$ref\":text} shape"},
	})
}
