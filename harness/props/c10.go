package props

import (
	"encoding/json"
	"fmt"
	"reflect"
	"strings"

	"github.com/go-openapi/spec"

	"verifharness/core"
	"verifharness/gen"
	"verifharness/oracle"
)

// C10 — single-element expanders agree with spec expansion and never touch the root.

func c10NumCases(env *core.Env) int {
	if env.Thorough() {
		return 15000
	}
	return 3000
}

// decoyRoot is the same document with every marker changed.
func decoyRoot(doc interface{}) interface{} {
	cp := oracle.DeepCopy(doc)
	var walk func(v interface{})
	walk = func(v interface{}) {
		switch x := v.(type) {
		case map[string]interface{}:
			for k, w := range x {
				if s, ok := w.(string); ok && (k == "title" || k == "description" || k == "x-mark" || k == "format") {
					x[k] = s + " (decoy)"
				}
				walk(w)
			}
		case []interface{}:
			for _, w := range x {
				walk(w)
			}
		}
	}
	walk(cp)
	return cp
}

// setAt returns a deep copy of doc with the value at toks replaced.
func setAt(doc interface{}, toks []string, v interface{}) interface{} {
	cp := oracle.DeepCopy(doc)
	if len(toks) == 0 {
		return v
	}
	cur := cp
	for i, t := range toks {
		m, ok := cur.(map[string]interface{})
		if !ok {
			return cp
		}
		if i == len(toks)-1 {
			m[t] = v
			return cp
		}
		cur = m[t]
	}
	return cp
}

// optSnapshot is everything an option structure holds, exported or not, read field by field through reflection (a hidden
// field that a call fills in is a change of the caller's structure as well): scalars by value, functions, pointers, maps and
// slices by identity and length.
type optSnapshot string

func snapOpts(o *spec.ExpandOptions) optSnapshot {
	rv := reflect.ValueOf(o).Elem()
	var sb strings.Builder
	for i := 0; i < rv.NumField(); i++ {
		f := rv.Field(i)
		fmt.Fprintf(&sb, "%s=", rv.Type().Field(i).Name)
		switch f.Kind() {
		case reflect.String:
			fmt.Fprintf(&sb, "%q", f.String())
		case reflect.Bool:
			fmt.Fprintf(&sb, "%v", f.Bool())
		case reflect.Int, reflect.Int8, reflect.Int16, reflect.Int32, reflect.Int64:
			fmt.Fprintf(&sb, "%d", f.Int())
		case reflect.Uint, reflect.Uint8, reflect.Uint16, reflect.Uint32, reflect.Uint64, reflect.Uintptr:
			fmt.Fprintf(&sb, "%d", f.Uint())
		case reflect.Float32, reflect.Float64:
			fmt.Fprintf(&sb, "%v", f.Float())
		case reflect.Func, reflect.Ptr, reflect.UnsafePointer, reflect.Chan:
			if f.IsNil() {
				sb.WriteString("nil")
			} else {
				fmt.Fprintf(&sb, "@%x", f.Pointer())
			}
		case reflect.Map, reflect.Slice:
			if f.IsNil() {
				sb.WriteString("nil")
			} else {
				fmt.Fprintf(&sb, "@%x/len=%d", f.Pointer(), f.Len())
			}
		case reflect.Interface:
			if f.IsNil() {
				sb.WriteString("nil")
			} else {
				fmt.Fprintf(&sb, "(%s)", f.Elem().Type())
			}
		default:
			fmt.Fprintf(&sb, "<%s>", f.Kind())
		}
		sb.WriteString(" ")
	}
	return optSnapshot(sb.String())
}

// c10IDScope: an element whose schema carries an id and, next to it, a relative $ref: every entry point reads that $ref in the scope
// the id opens (the document exists there only), as the whole-spec expansion does.
func c10IDScope(k int, res *core.CaseResult) {
	id := []string{"http://ids.example/c10/dir/", "http://ids.example/c10/dir/self.json"}[k%2]
	rootText := fmt.Sprintf(`{"swagger":"2.0","info":{"title":"t","version":"1"},"paths":{},"definitions":{"scoped":{"id":%q,"$ref":"leaf.json#/definitions/leaf"}},`+
		`"parameters":{"scoped":{"name":"b","in":"body","schema":{"id":%q,"$ref":"leaf.json#/definitions/leaf"}}},"responses":{"scoped":{"description":"r","schema":{"id":%q,"$ref":"leaf.json#/definitions/leaf"}}}}`, id, id, id)
	var reqs []string
	loader := func(u string) (json.RawMessage, error) {
		reqs = append(reqs, u)
		if u == "http://ids.example/c10/dir/leaf.json" {
			return json.RawMessage(`{"definitions":{"leaf":{"title":"leaf in the id scope","type":"object"}}}`), nil
		}
		return nil, fmt.Errorf("no document at %s", u)
	}
	saved := spec.PathLoader
	spec.PathLoader = loader
	defer func() { spec.PathLoader = saved }()
	typed := func() *spec.Swagger { sw := new(spec.Swagger); _ = json.Unmarshal([]byte(rootText), sw); return sw }
	generic := func() interface{} { var g interface{}; _ = json.Unmarshal([]byte(rootText), &g); return g }
	titleOf := func(v interface{}) string {
		n, _ := oracle.Norm(v)
		for _, p := range []string{"/title", "/schema/title", "/definitions/scoped/title"} {
			if t, ok := oracle.EvalPointer(n, p); ok {
				if s, isStr := t.(string); isStr {
					return s
				}
			}
		}
		return ""
	}
	type run struct {
		name string
		f    func() (interface{}, error)
	}
	opts := func() *spec.ExpandOptions { return &spec.ExpandOptions{RelativeBase: gen.RootURL, PathLoader: loader} }
	runs := []run{
		{"ExpandSpec", func() (interface{}, error) { sw := typed(); return sw, spec.ExpandSpec(sw, opts()) }},
		{"ExpandSchema root=typed", func() (interface{}, error) {
			s := spec.RefSchema("#/definitions/scoped")
			return s, spec.ExpandSchema(s, typed(), nil)
		}},
		{"ExpandSchema root=generic", func() (interface{}, error) {
			s := spec.RefSchema("#/definitions/scoped")
			return s, spec.ExpandSchema(s, generic(), nil)
		}},
		{"ExpandSchemaWithBasePath", func() (interface{}, error) {
			s := spec.RefSchema("root.json#/definitions/scoped")
			o := opts()
			o.PathLoader = func(u string) (json.RawMessage, error) {
				if u == gen.RootURL {
					return json.RawMessage(rootText), nil
				}
				return loader(u)
			}
			return s, spec.ExpandSchemaWithBasePath(s, nil, o)
		}},
		{"ExpandParameterWithRoot root=typed", func() (interface{}, error) {
			p := spec.ParamRef("#/parameters/scoped")
			return p, spec.ExpandParameterWithRoot(p, typed(), nil)
		}},
		{"ExpandResponseWithRoot root=generic", func() (interface{}, error) {
			r := spec.ResponseRef("#/responses/scoped")
			return r, spec.ExpandResponseWithRoot(r, generic(), nil)
		}},
	}
	for _, r := range runs {
		reqs = nil
		var out interface{}
		err, pan := guard(func() error { var e error; out, e = r.f(); return e })
		res.Evals++
		res.Count("element-with-id-and-sibling-ref", 1)
		wit := map[string]interface{}{"root_in_memory": json.RawMessage(rootText), "entry": r.name, "id": id, "only_document": "http://ids.example/c10/dir/leaf.json", "requests": append([]string{}, reqs...)}
		switch {
		case pan != "":
			res.Violate("panic "+r.name+" (id next to $ref)", pan, wit)
		case err != nil:
			res.Violate("spurious-error "+r.name+" (id next to $ref): "+errClass(err), err.Error(), wit)
		case titleOf(out) != "leaf in the id scope":
			n, _ := oracle.Norm(out)
			res.Violate("element not expanded from the scope of its id: "+r.name, core.Abbrev(oracle.Text(n), 300), wit)
		}
	}
}

// c10Retry: an element whose expansion failed (the root is still incomplete, or a document could not be loaded) and is expanded again
// once the cause is gone. The failed call must leave the $ref it could not follow where it was, and the second call must give what a
// fresh copy of the element gives.
func c10Retry(k int, res *core.CaseResult) {
	incomplete := `{"swagger":"2.0","info":{"title":"t","version":"1"},"paths":{}}`
	complete := `{"swagger":"2.0","info":{"title":"t","version":"1"},"paths":{},` +
		`"parameters":{"later":{"name":"late","in":"body","schema":{"title":"schema of the late parameter","type":"object"}}},` +
		`"responses":{"later":{"description":"late response","schema":{"title":"schema of the late response","type":"object"}}}}`
	mkRoot := func(text string, typedRoot bool) interface{} {
		if typedRoot {
			sw := new(spec.Swagger)
			_ = json.Unmarshal([]byte(text), sw)
			return sw
		}
		var g interface{}
		_ = json.Unmarshal([]byte(text), &g)
		return g
	}
	other := `{"parameters":{"later":{"name":"late","in":"body","schema":{"title":"schema of the late parameter","type":"object"}}},` +
		`"responses":{"later":{"description":"late response","schema":{"title":"schema of the late response","type":"object"}}}}`
	available := false
	loader := func(u string) (json.RawMessage, error) {
		if available && u == "file:///c10r/a/other.json" {
			return json.RawMessage(other), nil
		}
		return nil, fmt.Errorf("temporarily unavailable: %s", u)
	}
	saved := spec.PathLoader
	spec.PathLoader = loader
	defer func() { spec.PathLoader = saved }()
	typedRoot := k%2 == 0
	type attempt struct {
		name    string
		refText string
		mk      func() (interface{}, *spec.Ref)
		run     func(el interface{}, second bool) error
		want    string
	}
	withRoot := func(second bool) interface{} {
		if second {
			return mkRoot(complete, typedRoot)
		}
		return mkRoot(incomplete, typedRoot)
	}
	attempts := []attempt{
		{"ExpandParameterWithRoot", "#/parameters/later", func() (interface{}, *spec.Ref) { p := spec.ParamRef("#/parameters/later"); return p, &p.Ref },
			func(el interface{}, second bool) error { return spec.ExpandParameterWithRoot(el.(*spec.Parameter), withRoot(second), nil) }, "late"},
		{"ExpandResponseWithRoot", "#/responses/later", func() (interface{}, *spec.Ref) { r := spec.ResponseRef("#/responses/later"); return r, &r.Ref },
			func(el interface{}, second bool) error { return spec.ExpandResponseWithRoot(el.(*spec.Response), withRoot(second), nil) }, "late response"},
		{"ExpandParameter", "other.json#/parameters/later", func() (interface{}, *spec.Ref) { p := spec.ParamRef("other.json#/parameters/later"); return p, &p.Ref },
			func(el interface{}, second bool) error { available = second; return spec.ExpandParameter(el.(*spec.Parameter), "file:///c10r/a/root.json") }, "late"},
		{"ExpandResponse", "other.json#/responses/later", func() (interface{}, *spec.Ref) { r := spec.ResponseRef("other.json#/responses/later"); return r, &r.Ref },
			func(el interface{}, second bool) error { available = second; return spec.ExpandResponse(el.(*spec.Response), "file:///c10r/a/root.json") }, "late response"},
	}
	for _, a := range attempts {
		el, ref := a.mk()
		wit := map[string]interface{}{"entry": a.name, "element": map[string]string{"$ref": a.refText}, "first_root": json.RawMessage(incomplete), "second_root": json.RawMessage(complete),
			"document_available_on_second_call": json.RawMessage(other), "root_typed": typedRoot}
		err, pan := guard(func() error { return a.run(el, false) })
		res.Evals++
		res.Count("retry-after-failure", 1)
		if pan != "" {
			res.Violate("panic "+a.name+" (unresolvable element)", pan, wit)
			continue
		}
		if err == nil {
			res.Violate("silent-failure "+a.name+" (unresolvable element)", "no error for "+a.refText+" although nothing is there", wit)
			continue
		}
		if got := ref.String(); got != a.refText {
			res.Violate("failed-call-removed-the-$ref "+a.name, fmt.Sprintf("after the failed call the element holds $ref %q, it held %q", got, a.refText), wit)
		}
		err, pan = guard(func() error { return a.run(el, true) })
		res.Evals++
		if pan != "" || err != nil {
			res.Violate("second-call-fails "+a.name, fmt.Sprintf("%v %s", err, pan), wit)
			continue
		}
		b, _ := json.Marshal(el)
		var plain map[string]interface{}
		_ = json.Unmarshal(b, &plain)
		got, _ := plain["name"].(string)
		if got == "" {
			got, _ = plain["description"].(string)
		}
		if got != a.want || plain["schema"] == nil {
			res.Violate("second-call-after-a-failure-differs "+a.name, fmt.Sprintf("expanding the element again once %s exists gives %s", a.refText, core.Abbrev(string(b), 200)), wit)
		}
	}
}

func c10Run(env *core.Env, idx int) core.CaseResult {
	var res core.CaseResult
	if idx < 2 {
		c10IDScope(idx, &res)
	}
	if idx >= 2 && idx < 4 {
		c10Retry(idx, &res)
	}
	rng := core.Rng(env.Seed, "C10", idx)
	multi := idx%2 == 1
	o := gen.WorldOpts{NDocs: 1, Cyclic: rng.Intn(2) == 0, Nested: rng.Intn(2) == 0, HostileNames: rng.Intn(4) == 0, Siblings: rng.Intn(4) == 0,
		Elements: 2 + rng.Intn(3), MaxDepth: 1 + rng.Intn(2), RefDensity: []float64{0.4, 0.6}[rng.Intn(2)]}
	o.FragmentOnly = !multi // the *WithRoot entry points know the root document only as "#"
	if multi {
		o.NDocs = 2 + rng.Intn(3)
		o.Chains = rng.Intn(3) == 0
		o.HTTP = rng.Intn(3) == 0
	}
	w := gen.GenWorld(rng, o)
	if multi && idx%10 == 1 {
		// the same reference graph served from http locations: other ports, hosts and schemes with namesake paths
		w = gen.Relocate(w, gen.Layouts[(idx/10)%len(gen.Layouts)])
	}
	if !multi {
		// an element whose schema names itself with an (absolute) id and refers to the root below it: "#/..." still means the root
		if rd, ok := w.Docs[w.Root].(map[string]interface{}); ok {
			defs, _ := rd["definitions"].(map[string]interface{})
			if defs != nil {
				defs["leafdef"] = map[string]interface{}{"title": "leaf definition", "type": "object"}
				idSchema := func(tag string) map[string]interface{} {
					return map[string]interface{}{"id": "http://ids.example/c10/" + tag + ".json", "title": "schema with id (" + tag + ")",
						"properties": map[string]interface{}{"a": map[string]interface{}{"$ref": "#/definitions/leafdef"}}}
				}
				ps, _ := rd["parameters"].(map[string]interface{})
				if ps == nil {
					ps = map[string]interface{}{}
					rd["parameters"] = ps
				}
				ps["withid"] = map[string]interface{}{"name": "withid", "in": "body", "description": "parameter whose schema has an id", "schema": idSchema("p")}
				rs, _ := rd["responses"].(map[string]interface{})
				if rs == nil {
					rs = map[string]interface{}{}
					rd["responses"] = rs
				}
				rs["withid"] = map[string]interface{}{"description": "response whose schema has an id", "schema": idSchema("r")}
				res.Count("element-with-id-scoped-schema", 2)
			}
		}
	}
	in := oworld(w)
	res.Hash = core.HashOf(w.Docs)
	rootText, _ := json.Marshal(w.Docs[w.Root])
	starts := oracle.SpecStarts(in, w.Root, true)
	acyclic := in.Acyclic(starts)
	const cap = 100000
	U := in.Unfolding(starts, cap)
	if U >= cap {
		res.Count("dropped(unfolding-too-large)", 1)
		return res
	}
	budget := 8*U + 64
	if acyclic {
		res.Count("world.acyclic", 1)
	} else {
		res.Count("world.cyclic", 1)
	}
	reach2 := 0
	for _, st := range starts {
		if st.Kind == "pathItem" {
			continue // there is no single-element expander for path items
		}
		toks, _ := oracle.PointerTokens(st.St.Ptr)
		refs, nstates := in.Reachable([]oracle.Child{st}, false)
		_ = refs
		if nstates >= 3 {
			reach2++
		}
		// entry points applicable to this kind
		type entry struct {
			name string
			run  func(asRef bool, root interface{}, cache spec.ResolutionCache, opts *spec.ExpandOptions) (interface{}, error)
		}
		var entries []entry
		elemJSON, _ := oracle.EvalPointer(in.Docs[w.Root], st.St.Ptr)
		elemText, _ := json.Marshal(elemJSON)
		localRef := "#" + gen.FragmentEscape(st.St.Ptr)
		switch st.Kind {
		case "schema":
			mk := func(asRef bool) *spec.Schema {
				if asRef {
					return spec.RefSchema(localRef)
				}
				s := new(spec.Schema)
				_ = json.Unmarshal(elemText, s)
				return s
			}
			if !multi {
				entries = append(entries, entry{"ExpandSchema", func(asRef bool, root interface{}, cache spec.ResolutionCache, _ *spec.ExpandOptions) (interface{}, error) {
					s := mk(asRef)
					err := spec.ExpandSchema(s, root, cache)
					return s, err
				}})
			}
			entries = append(entries, entry{"ExpandSchemaWithBasePath", func(asRef bool, _ interface{}, cache spec.ResolutionCache, opts *spec.ExpandOptions) (interface{}, error) {
				s := mk(asRef)
				err := spec.ExpandSchemaWithBasePath(s, cache, opts)
				return s, err
			}})
		case "parameter":
			mk := func(asRef bool) *spec.Parameter {
				if asRef {
					return spec.ParamRef(localRef)
				}
				p := new(spec.Parameter)
				_ = json.Unmarshal(elemText, p)
				return p
			}
			if !multi {
				entries = append(entries, entry{"ExpandParameterWithRoot", func(asRef bool, root interface{}, cache spec.ResolutionCache, _ *spec.ExpandOptions) (interface{}, error) {
					p := mk(asRef)
					err := spec.ExpandParameterWithRoot(p, root, cache)
					return p, err
				}})
			}
			entries = append(entries, entry{"ExpandParameter", func(asRef bool, _ interface{}, _ spec.ResolutionCache, opts *spec.ExpandOptions) (interface{}, error) {
				p := mk(asRef)
				err := spec.ExpandParameter(p, opts.RelativeBase)
				return p, err
			}})
		case "response":
			mk := func(asRef bool) *spec.Response {
				if asRef {
					return spec.ResponseRef(localRef)
				}
				r := new(spec.Response)
				_ = json.Unmarshal(elemText, r)
				return r
			}
			if !multi {
				entries = append(entries, entry{"ExpandResponseWithRoot", func(asRef bool, root interface{}, cache spec.ResolutionCache, _ *spec.ExpandOptions) (interface{}, error) {
					r := mk(asRef)
					err := spec.ExpandResponseWithRoot(r, root, cache)
					return r, err
				}})
			}
			entries = append(entries, entry{"ExpandResponse", func(asRef bool, _ interface{}, _ spec.ResolutionCache, opts *spec.ExpandOptions) (interface{}, error) {
				r := mk(asRef)
				err := spec.ExpandResponse(r, opts.RelativeBase)
				return r, err
			}})
		}
		for _, e := range entries {
			if strings.HasSuffix(st.St.Ptr, "/withid") && !(e.name == "ExpandParameterWithRoot" || e.name == "ExpandResponseWithRoot") {
				// under an id, "#/..." read through a base location designates the id-scoped document; only the entry points that are
				// given the root document itself ("based on a root document") are expected to read it in that root
				continue
			}
			for _, rootKind := range []string{"typed", "generic"} {
				takesRoot := e.name == "ExpandSchema" || e.name == "ExpandParameterWithRoot" || e.name == "ExpandResponseWithRoot"
				if !takesRoot && rootKind == "generic" {
					continue // the base-location entry points take no root
				}
				for _, asRef := range []bool{true, false} {
					if !takesRoot && asRef {
						// a fragment-only holder has no document of its own with a base location: give it the root's
						// (ExpandSchemaWithBasePath reads "#/..." in the document at RelativeBase)
					}
					for _, cacheMode := range []string{"none", "prefilled", "reused"} {
						prefilled := cacheMode == "prefilled"
						if cacheMode != "none" && (e.name == "ExpandParameter" || e.name == "ExpandResponse") {
							continue // no cache argument
						}
						if cacheMode == "reused" && !takesRoot {
							continue
						}
						ld := newLoader(w)
						saved := spec.PathLoader
						spec.PathLoader = ld.load
						var root interface{}
						switch {
						case !takesRoot:
						case rootKind == "typed":
							sw := new(spec.Swagger)
							_ = json.Unmarshal(rootText, sw)
							root = sw
						default:
							var g interface{}
							_ = json.Unmarshal(rootText, &g)
							root = g
						}
						var cache spec.ResolutionCache
						if prefilled {
							cache = spec.VerifNewDefaultCache()
							for u, d := range w.Docs {
								if u == w.Root && takesRoot {
									continue
								}
								var g interface{}
								b, _ := json.Marshal(d)
								_ = json.Unmarshal(b, &g)
								cache.Set(u, g)
							}
						}
						if cacheMode == "reused" {
							// the same cache has served an expansion against another root before (same names, other content)
							cache = spec.VerifNewDefaultCache()
							decoy := decoyRoot(in.Docs[w.Root])
							var droot interface{} = decoy
							if rootKind == "typed" {
								sw := new(spec.Swagger)
								db, _ := json.Marshal(decoy)
								_ = json.Unmarshal(db, sw)
								droot = sw
							}
							func() {
								defer func() { _ = recover() }()
								_, _ = e.run(true, droot, cache, nil)
							}()
							res.Count("reused-cache", 1)
						}
						opts := &spec.ExpandOptions{RelativeBase: w.Root, PathLoader: ld.load, AbsoluteCircularRef: rng.Intn(2) == 0}
						before := snapOpts(opts)
						var rootBefore interface{}
						if root != nil {
							rootBefore, _ = oracle.Norm(root)
						}
						h := &hookCollector{budget: budget}
						curHooks = h
						var out interface{}
						var err error
						var pan string
						exceeded := false
						func() {
							defer func() {
								if rec := recover(); rec != nil {
									if _, ok := rec.(stepBudgetExceeded); ok {
										exceeded = true
										return
									}
									pan = fmt.Sprint(rec)
								}
							}()
							out, err = e.run(asRef, root, cache, opts)
						}()
						curHooks = nil
						spec.PathLoader = saved
						res.Evals++
						label := fmt.Sprintf("%s root=%s holder=%v cache=%s", e.name, rootKind, asRef, cacheMode)
						res.Count("entry."+e.name, 1)
						if prefilled {
							res.Count("prefilled-cache", 1)
						}
						wit := map[string]interface{}{"root": w.Root, "documents": w.Docs, "element": st.St.Ptr, "entry": label}
						switch {
						case pan != "":
							res.Violate("panic "+e.name, pan, wit)
							continue
						case exceeded:
							res.Violate("step-budget-exhausted "+e.name, fmt.Sprintf("more than %d steps (U=%d)", budget, U), wit)
							continue
						case h.dupOnPath != "":
							res.Violate("ref-pushed-twice-on-parent-stack "+e.name, h.dupOnPath, wit)
						}
						// the caller's options and root are untouched
						if after := snapOpts(opts); after != before {
							res.Violate("caller-options-modified "+e.name, fmt.Sprintf("%+v -> %+v", before, after), wit)
						}
						if root != nil {
							rootAfter, _ := oracle.Norm(root)
							if !oracle.Equal(rootBefore, rootAfter) {
								d := oracle.Diff(rootBefore, rootAfter)
								res.Violate("root-modified "+e.name+" root="+rootKind, fmt.Sprintf("at %s: %s -> %s", d[0].Pointer(), core.Abbrev(oracle.Text(d[0].Before), 120), core.Abbrev(oracle.Text(d[0].After), 120)), wit)
							}
						}
						if err != nil {
							res.Violate("spurious-error "+e.name+": "+errClass(err), err.Error(), wit)
							continue
						}
						// same denotation as the element has in the context of the root
						outJSON, _ := oracle.Norm(out)
						var plain interface{}
						pb, _ := json.Marshal(outJSON)
						_ = json.Unmarshal(pb, &plain)
						outW := withRoot(in, w.Root, setAt(in.Docs[w.Root], toks, plain))
						wit["output"] = plain
						if m := oracle.Bisimilar(in, st.St, outW, st.St, st.Kind); m != nil {
							res.Violate("not-bisimilar "+e.name+" "+mismatchClass(fmt.Sprintf("%s %s%s: %s (input", st.Kind, st.St.Ptr, m.Path, m.Reason)),
								fmt.Sprintf("%s%s: %s (input %s, output %s)", st.St.Ptr, m.Path, m.Reason, m.A, m.B), wit)
							continue
						}
						// completeness: what is left behind are cycle cut-points that resolve against that same root
						for _, k := range oracle.AllRefs(outW, []oracle.Child{st}) {
							res.Count("kept-refs", 1)
							if !k.Resolvable {
								res.Violate("kept-ref-unresolvable "+e.name, fmt.Sprintf("%s holds %q", k.Holder.Ptr, k.Text), wit)
							} else if acyclic || !in.OnCycle(k.Target, k.Kind) {
								res.Violate("kept-ref-not-on-cycle "+e.name, fmt.Sprintf("%s holds %q -> %s", k.Holder.Ptr, k.Text, k.Target), wit)
							}
						}
					}
				}
			}
		}
	}
	res.NonTrivial = reach2 > 0
	res.Sample = map[string]interface{}{"documents": len(w.Docs), "elements": len(starts), "multi_document": multi}
	return res
}

func init() {
	core.Register(&core.Property{
		ID:    "C10",
		Level: "exploration",
		Rule: "every definition, parameter and response of generated roots (single-document worlds for the *WithRoot entry points, multi-document worlds for the base-location ones) expanded through ExpandSchema, ExpandSchemaWithBasePath, " +
			"ExpandParameter[WithRoot], ExpandResponse[WithRoot] x root as typed/generic x element as fresh $ref holder/deep copy x empty/pre-filled cache; monitors: bisimilar (O-DEN) to the element in the context of the root, " +
			"kept $refs resolvable against that root and on input cycles, step budget (H1), root JSON and caller options unchanged. non-trivial = element reaches >= 2 other elements",
		NumCases: c10NumCases,
		Run:      c10Run,
		Floors: func(env *core.Env) []string {
			return []string{"entry.ExpandSchema", "entry.ExpandSchemaWithBasePath", "entry.ExpandParameterWithRoot", "entry.ExpandParameter", "entry.ExpandResponseWithRoot", "entry.ExpandResponse",
				"prefilled-cache", "reused-cache", "element-with-id-scoped-schema", "element-with-id-and-sibling-ref", "kept-refs", "world.cyclic", "world.acyclic"}
		},
		Assumptions: []string{"the *WithRoot entry points are documented to reach the root document only: their worlds are single-document",
			"ExpandParameter/ExpandResponse read documents through the package-level PathLoader, which the worker points at the world for the duration of the call"},
	})
}
