package props

import (
	"encoding/json"
	"fmt"
	"github.com/go-openapi/spec"
	"os"
	"sort"

	"verifharness/core"
	"verifharness/gen"
	"verifharness/oracle"
)

// C01 — JSON round-trip is lossless for normal-form documents.

const (
	c01VariantsQuick    = 6
	c01VariantsThorough = 24
	c01RandomQuick      = 160000
	c01RandomThorough   = 600000
)

func c01Variants(env *core.Env) int {
	if env.Thorough() {
		return c01VariantsThorough
	}
	return c01VariantsQuick
}

func c01NumCases(env *core.Env) int {
	n := len(gen.StructuredCells()) * c01Variants(env)
	if env.Thorough() {
		return n + c01RandomThorough
	}
	return n + c01RandomQuick
}

// docCase builds the document of case idx: structured single-feature cases first, random combinations after.
func docCase(env *core.Env, prop string, idx int, variants int, fragile bool) (g *gen.DocGen, kind string, doc map[string]interface{}, structured bool) {
	return docCaseKinds(env, prop, idx, variants, fragile, gen.DocKinds)
}

// structuredCellsFor restricts the structured cells to some kinds.
func structuredCellsFor(kinds []string) [][2]string {
	want := map[string]bool{}
	for _, k := range kinds {
		want[k] = true
	}
	var out [][2]string
	for _, c := range gen.StructuredCells() {
		if want[c[0]] {
			out = append(out, c)
		}
	}
	return out
}

func docCaseKinds(env *core.Env, prop string, idx int, variants int, fragile bool, kinds []string) (g *gen.DocGen, kind string, doc map[string]interface{}, structured bool) {
	cells := structuredCellsFor(kinds)
	rng := core.Rng(env.Seed, prop, idx)
	g = gen.NewDocGen(rng)
	g.Refs = true
	g.Fragile = fragile
	if idx < len(cells)*variants {
		cell := cells[idx/variants]
		g.Only = &cell
		g.Variant = idx % variants
		// the structured part does not depend on the seed
		g.R = core.Rng(0, prop+"/structured", idx)
		g.EmptyRequired = g.Variant == variants-1
		kind = cell[0]
		return g, kind, g.Gen(kind), true
	}
	r := idx - len(cells)*variants
	kind = kinds[r%len(kinds)]
	g.EmptyRequired = rng.Intn(4) == 0
	g.Density = []float64{0.6, 1, 1.6}[rng.Intn(3)]
	g.MaxDepth = 2 + rng.Intn(4)
	g.BigMaps = rng.Intn(8) == 0
	return g, kind, g.Gen(kind), false
}

var requiredMembers = map[string]map[string]bool{
	"swagger": {"swagger": true, "info": true, "paths": true}, "info": {"title": true, "version": true}, "license": {"name": true},
	"tag": {"name": true}, "externalDocs": {"url": true}, "response": {"description": true},
	"parameter": {"name": true, "in": true, "type": true, "schema": true}, "items": {"type": true}, "header": {"type": true},
	"securityScheme": {"type": true, "name": true, "in": true, "flow": true, "authorizationUrl": true, "tokenUrl": true},
	"operation":      {"responses": true},
}

// normalFormViolation re-checks the generated document against C01's definition of normal form
// (a failure here is a defect of the generator, never of the code under test).
func normalFormViolation(doc interface{}, kinds map[string]string) string {
	var bad string
	var walk func(v interface{}, path []string)
	walk = func(v interface{}, path []string) {
		if bad != "" {
			return
		}
		switch x := v.(type) {
		case map[string]interface{}:
			kind, isObj := kinds[oracle.TokensToPointer(path)]
			for k, w := range x {
				if isObj {
					req := requiredMembers[kind][k]
					switch y := w.(type) {
					case nil:
						bad = fmt.Sprintf("null member %s of %s", k, kind)
					case string:
						if y == "" && !req && kindKeywords[kind][k] {
							bad = fmt.Sprintf("empty optional string %s of %s", k, kind)
						}
					case bool:
						if !y && kindKeywords[kind][k] && k != "additionalProperties" && k != "additionalItems" {
							bad = fmt.Sprintf("false optional boolean %s of %s", k, kind)
						}
					case []interface{}:
						if len(y) == 0 && !req && kindKeywords[kind][k] {
							bad = fmt.Sprintf("empty optional array %s of %s", k, kind)
						}
						if k == "type" && len(y) == 1 {
							bad = "single-valued type written as an array"
						}
					case map[string]interface{}:
						if len(y) == 0 && !req && kindKeywords[kind][k] {
							bad = fmt.Sprintf("empty optional object %s of %s", k, kind)
						}
					}
				}
				walk(w, append(append([]string{}, path...), k))
			}
		case []interface{}:
			for i, w := range x {
				walk(w, append(append([]string{}, path...), fmt.Sprint(i)))
			}
		}
	}
	walk(doc, nil)
	return bad
}

func countMembers(v interface{}) int {
	n := 0
	switch x := v.(type) {
	case map[string]interface{}:
		for _, w := range x {
			n += 1 + countMembers(w)
		}
	case []interface{}:
		for _, w := range x {
			n += countMembers(w)
		}
	}
	return n
}

func c01Run(env *core.Env, idx int) core.CaseResult {
	var res core.CaseResult
	g, kind, doc, structured := docCase(env, "C01", idx, c01Variants(env), false)
	text, err := json.Marshal(doc)
	if err != nil {
		res.Inconcl = "generator produced an unencodable document: " + err.Error()
		return res
	}
	if nf := normalFormViolation(doc, g.Kinds); nf != "" {
		res.Inconcl = "generator left normal form: " + nf
		return res
	}
	in, _ := oracle.Parse(text)
	res.Evals = 1
	res.Hash = core.HashBytes(text)
	res.NonTrivial = countMembers(doc) >= len(requiredMembers[kind])+2 || len(g.Kinds) > 1
	for c, n := range g.Cells {
		res.Count("kw."+c, n)
	}
	res.Count("kind."+kind, 1)
	if structured {
		res.Count("part.structured", 1)
	} else {
		res.Count("part.random", 1)
	}
	res.Sample = map[string]interface{}{"kind": kind, "document": core.Abbrev(string(text), 400)}
	wit := map[string]interface{}{"kind": kind, "input": json.RawMessage(text)}
	// the decoder is handed the text as one of three producers would have written it (compact, pretty-printed, '$' escaped)
	spelled := respell(text, idx%3)
	res.Count(fmt.Sprintf("input-spelling.%d", idx%3), 1)
	if idx%3 != 0 {
		wit["input_as_given_to_the_decoder"] = string(spelled)
	}
	out, _, stage, detail := roundTrip(kind, spelled)
	if stage != "" {
		res.Violate(fmt.Sprintf("%s %s: %s", stage, kind, errClass(fmt.Errorf("%s", detail))), detail, wit)
		return res
	}
	got, perr := oracle.Parse(out)
	if perr != nil {
		res.Violate("encoded-invalid-json "+kind, perr.Error()+": "+core.Abbrev(string(out), 300), wit)
		return res
	}
	if kind == "swagger" {
		// the same text decoded into a value that has held another document before: what a document decodes to is a function of its text
		used := new(spec.Swagger)
		_ = json.Unmarshal([]byte(c01EarlierDocument), used)
		err, pan := guard(func() error { return json.Unmarshal(spelled, used) })
		if err == nil && pan == "" {
			if again, err := json.Marshal(used); err == nil {
				res.Count("decoded-into-a-used-value", 1)
				if ag, perr := oracle.Parse(again); perr == nil && !oracle.Equal(ag, got) {
					d := oracle.Diff(got, ag)
					res.Violate("decode-into-a-used-value-differs-from-a-fresh-one swagger", fmt.Sprintf("at %s: fresh value %s, used value %s", d[0].Pointer(), core.Abbrev(oracle.Text(d[0].Before), 120), core.Abbrev(oracle.Text(d[0].After), 120)), wit)
				}
			}
		}
	}
	if oracle.Equal(in, got) {
		return res
	}
	wit["output"] = json.RawMessage(out)
	seen := map[string]bool{}
	for _, d := range oracle.Diff(in, got) {
		cl := diffClass(g.Kinds, d)
		if seen[cl] {
			continue
		}
		seen[cl] = true
		res.Violate(cl, fmt.Sprintf("at %s: before=%s after=%s", d.Pointer(), core.Abbrev(oracle.Text(d.Before), 120), core.Abbrev(oracle.Text(d.After), 120)), wit)
	}
	return res
}

// c01EarlierDocument is what the re-used value held before (every top-level member present, so that anything left behind shows)
const c01EarlierDocument = `{"swagger":"2.0","info":{"title":"earlier","version":"0","description":"earlier document","termsOfService":"tos","contact":{"name":"c"},"license":{"name":"l"}},
"host":"earlier.example:8080","basePath":"/earlier","schemes":["wss"],"consumes":["application/earlier"],"produces":["application/earlier"],
"paths":{"/earlier":{"get":{"operationId":"earlier","responses":{"200":{"description":"earlier"}}}}},
"definitions":{"Earlier":{"type":"object","x-earlier":true}},"parameters":{"earlier":{"name":"e","in":"query","type":"string"}},"responses":{"earlier":{"description":"e"}},
"securityDefinitions":{"earlier":{"type":"basic"}},"security":[{"earlier":[]}],"tags":[{"name":"earlier","description":"e"},{"name":"earlier2"}],
"externalDocs":{"url":"http://earlier.example"},"x-earlier":{"a":1}}`

func c01Floors(env *core.Env) []string {
	cells, err := gen.MetaCells(verifRootDir(), false)
	if err != nil {
		return []string{"meta-schema cells unreadable: " + err.Error()}
	}
	var out []string
	for _, c := range cells {
		out = append(out, "kw."+c)
	}
	for _, k := range gen.DocKinds {
		out = append(out, "kind."+k)
	}
	out = append(out, "decoded-into-a-used-value")
	sort.Strings(out)
	return out
}

func verifRootDir() string {
	if r := os.Getenv("VERIF_ROOT"); r != "" {
		return r
	}
	return "/verif"
}

func init() {
	core.Register(&core.Property{
		ID:    "C01",
		Level: "exploration",
		Rule: "G-DOC normal-form documents of 17 kinds (14 of the statement + xml, externalDocs, whole swagger): structured part = every optional (kind, keyword) cell alone on a minimal carrier x value-shape variants, " +
			"random part = seeded combinations with hostile member names and free-form payloads; decode into the model type, encode, compare as JSON values (exact numbers). " +
			"non-trivial = at least 2 members beyond the required ones or a nested specification object; distinct by hash of the input text",
		NumCases: c01NumCases,
		Run:      c01Run,
		Floors:   c01Floors,
		Assumptions: []string{
			"normal form is enforced by construction and re-checked by a predicate on every generated document",
			"$ref and $schema values are generated in the canonical text C13 defines, plus the standard draft-04 URL with its trailing '#'",
			"unknown schema keywords avoid (case-insensitively) every JSON name of the model's schema type, incl. the model-only keyword nullable",
		},
	})
}
