package props

import (
	"encoding/json"
	"fmt"
	"net/url"
	"os"
	"path"
	"path/filepath"
	"reflect"
	"sort"
	"strings"

	"github.com/go-openapi/spec"

	"verifharness/core"
	"verifharness/gen"
	"verifharness/oracle"
)

// C16 — calls share no hidden state.
//
// A case is a history of public calls over versions of a world that share every URL (and the pseudo root) but differ in
// content at every node. Each call is judged against the version it was given; the package-level cache is inspected
// after every call (hook H4).

func c16NumCases(env *core.Env) int {
	if env.Thorough() {
		return 4000
	}
	return 800
}

func c16HistoryLen(env *core.Env) int {
	if env.Thorough() {
		return 60
	}
	return 20
}

// worldVersion derives a version of a world: same URLs, every marker changed, definition names rotated inside each document
// (so that the same $ref text designates other content).
func worldVersion(w *gen.World, v int) *gen.World {
	if v == 0 {
		return w
	}
	nw := &gen.World{Docs: map[string]interface{}{}, Root: w.Root, Features: w.Features, Slots: w.Slots}
	tag := fmt.Sprintf(" [v%d]", v)
	var mark func(x interface{}) interface{}
	mark = func(x interface{}) interface{} {
		switch t := x.(type) {
		case map[string]interface{}:
			m := map[string]interface{}{}
			for k, val := range t {
				if s, ok := val.(string); ok && (k == "title" || k == "description" || k == "x-mark" || k == "operationId" || k == "format") {
					m[k] = s + tag
					continue
				}
				m[k] = mark(val)
			}
			return m
		case []interface{}:
			a := make([]interface{}, len(t))
			for i, val := range t {
				a[i] = mark(val)
			}
			return a
		}
		return x
	}
	for u, d := range w.Docs {
		nd, _ := mark(d).(map[string]interface{})
		if defs, ok := nd["definitions"].(map[string]interface{}); ok && len(defs) > 1 {
			var names []string
			for k := range defs {
				names = append(names, k)
			}
			sort.Strings(names)
			rot := map[string]interface{}{}
			for i, n := range names {
				rot[names[(i+v)%len(names)]] = defs[n]
			}
			nd["definitions"] = rot
		}
		nw.Docs[u] = nd
	}
	return nw
}

var (
	pinnedOnce  bool
	pinnedJSON  = map[string]interface{}{} // cache key -> expected JSON of the built-in meta-schema
	pinnedFirst = map[string]uintptr{}     // identity of the entries when first observed
)

func loadPinned() error {
	if pinnedOnce {
		return nil
	}
	for key, file := range map[string]string{"http://swagger.io/v2/schema.json": "swagger-2.0-schema.json", "http://json-schema.org/draft-04/schema": "jsonschema-draft-04.json"} {
		b, err := os.ReadFile(filepath.Join(verifRootDir(), "oracle-data", file))
		if err != nil {
			return err
		}
		s := new(spec.Schema)
		if err := json.Unmarshal(b, s); err != nil {
			return err
		}
		n, err := oracle.Norm(s)
		if err != nil {
			return err
		}
		pinnedJSON[key] = n
	}
	pinnedOnce = true
	return nil
}

// checkDefaultCache is the quiescent-point invariant on the package-level cache.
func checkDefaultCache(report func(class, detail string)) {
	keys := spec.VerifDefaultCacheKeys()
	if keys == nil {
		return // not initialised yet
	}
	sort.Strings(keys)
	want := []string{"http://json-schema.org/draft-04/schema", "http://swagger.io/v2/schema.json"}
	if strings.Join(keys, " ") != strings.Join(want, " ") {
		report("package-cache-keys-changed", fmt.Sprintf("the package-level cache holds %q", keys))
	}
	for _, k := range want {
		e, ok := spec.VerifDefaultCacheEntry(k)
		if !ok {
			report("builtin-meta-schema-missing", k)
			continue
		}
		rv := reflect.ValueOf(e)
		if rv.Kind() == reflect.Ptr {
			if first, seen := pinnedFirst[k]; !seen {
				pinnedFirst[k] = rv.Pointer()
			} else if first != rv.Pointer() {
				report("builtin-meta-schema-replaced", k)
			}
		}
		n, err := oracle.Norm(e)
		if err != nil || !oracle.Equal(n, pinnedJSON[k]) {
			d := oracle.Diff(pinnedJSON[k], n)
			where := ""
			if len(d) > 0 {
				where = fmt.Sprintf(" at %s: %s -> %s", d[0].Pointer(), core.Abbrev(oracle.Text(d[0].Before), 100), core.Abbrev(oracle.Text(d[0].After), 100))
			}
			report("builtin-meta-schema-modified", k+where)
		}
	}
}

func c16Run(env *core.Env, idx int) core.CaseResult {
	var res core.CaseResult
	if err := loadPinned(); err != nil {
		res.Inconcl = "pinned meta-schemas unreadable: " + err.Error()
		return res
	}
	rng := core.Rng(env.Seed, "C16", idx)
	// no nested targets: the versions rotate definition names, which keeps every top-level target resolvable
	o := gen.WorldOpts{NDocs: 2 + rng.Intn(3), Cyclic: rng.Intn(2) == 0, Nested: false, AbsOnly: idx%2 == 0, FragmentOnly: idx%2 == 0, Chains: rng.Intn(3) == 0, HTTP: rng.Intn(2) == 0,
		Elements: 2 + rng.Intn(2), MaxDepth: 1 + rng.Intn(2), RefDensity: 0.55}
	base := gen.GenWorld(rng, o)
	versions := []*gen.World{base, worldVersion(base, 1), worldVersion(base, 2)}
	ins := []*oracle.OWorld{oworld(versions[0]), oworld(versions[1]), oworld(versions[2])}
	res.Hash = core.HashOf(base.Docs)
	var history []string
	sameURLDifferentContent := 0
	lastVersion := -1
	prevKind := "start"
	savedLoader := spec.PathLoader
	defer func() { spec.PathLoader = savedLoader }()
	// an option structure without base location that the caller reuses from call to call
	var curLoader *loaderLog
	var sharedRef *spec.Ref
	var sharedRefText, sharedRefDoc, sharedRefName string
	sharedOpts := &spec.ExpandOptions{PathLoader: func(u string) (json.RawMessage, error) { return curLoader.load(u) }}
	sharedBefore := snapOpts(sharedOpts)
	// and one with the (canonical) location of the root, also reused from call to call: every version lives at the same URLs
	sharedBaseOpts := &spec.ExpandOptions{RelativeBase: base.Root, PathLoader: func(u string) (json.RawMessage, error) { return curLoader.load(u) }}
	sharedBaseBefore := snapOpts(sharedBaseOpts)
	for step := 0; step < c16HistoryLen(env); step++ {
		v := rng.Intn(3)
		w, in := versions[v], ins[v]
		if lastVersion >= 0 && lastVersion != v {
			sameURLDifferentContent++
		}
		lastVersion = v
		kind := []string{"ExpandSpec", "ExpandSchemaWithBasePath", "ResolveRefWithBase", "ExpandResponse", "ExpandParameter", "meta-schema", "ExpandSchema(typed-root)", "ExpandSpec(shared-options,no-base)", "ExpandSchema(root-with-id)", "nil-options", "reused-ref-value", "invalid-base-then-invalid-id", "reused-options-moved-base"}[rng.Intn(13)]
		if kind == "ExpandSpec(shared-options,no-base)" && !o.AbsOnly {
			kind = "ExpandSpec" // without a base location only absolute and fragment-only references are meaningful
		}
		history = append(history, fmt.Sprintf("%s(v%d)", kind, v))
		res.Count("pair."+prevKind+"->"+kind, 1)
		prevKind = kind
		ld := newLoader(w)
		curLoader = ld
		// the package default loader is swapped between calls
		if rng.Intn(2) == 0 {
			spec.PathLoader = ld.load
		} else {
			spec.PathLoader = func(string) (json.RawMessage, error) {
				return nil, fmt.Errorf("package-level loader must not be used by this call")
			}
		}
		pkgLoaderIsWorld := false
		wit := map[string]interface{}{"root": w.Root, "documents_of_this_call": w.Docs, "history": append([]string{}, history...), "step": step}
		report := func(class, detail string) { res.Violate(class+" ["+kind+"]", detail, wit) }
		opts := &spec.ExpandOptions{RelativeBase: w.Root, PathLoader: ld.load, AbsoluteCircularRef: rng.Intn(2) == 0}
		if rng.Intn(2) == 0 {
			opts = sharedBaseOpts
			res.Count("calls-with-reused-options", 1)
		}
		before := snapOpts(opts)
		root, _ := in.Docs[w.Root].(map[string]interface{})
		pick := func(section string) string {
			m, _ := root[section].(map[string]interface{})
			var ks []string
			for k := range m {
				ks = append(ks, k)
			}
			sort.Strings(ks)
			if len(ks) == 0 {
				return ""
			}
			return ks[rng.Intn(len(ks))]
		}
		needDocs := func(starts []oracle.Child) []string {
			refs, _ := in.Reachable(starts, false)
			need := map[string]bool{}
			for _, ri := range refs {
				if ri.Resolvable && ri.Target.Doc != w.Root {
					need[ri.Target.Doc] = true
				}
			}
			return sortedStrings(need)
		}
		checkLoadedAfresh := func(starts []oracle.Child) {
			got := map[string]bool{}
			for _, q := range ld.requests {
				got[q] = true
			}
			for _, d := range needDocs(starts) {
				if !got[d] {
					report("document-not-loaded-afresh", fmt.Sprintf("this call depends on %s but did not ask the loader for it (requests: %v)", d, ld.requests))
					break
				}
			}
		}
		res.Evals++
		switch kind {
		case "ExpandSpec":
			sw := new(spec.Swagger)
			_ = json.Unmarshal(ld.docs[w.Root], sw)
			err, pan := guard(func() error { return spec.ExpandSpec(sw, opts) })
			if pan != "" || err != nil {
				report("call-failed", fmt.Sprintf("%v %s", err, pan))
				break
			}
			out, _ := oracle.Norm(sw)
			var plain interface{}
			b, _ := json.Marshal(out)
			_ = json.Unmarshal(b, &plain)
			if mm, _ := monitorMeaning(in, w.Root, plain, true); len(mm) > 0 {
				report("result-depends-on-earlier-call", mm[0])
			}
			checkLoadedAfresh(oracle.SpecStarts(in, w.Root, true))
		case "ExpandSpec(shared-options,no-base)":
			sw := new(spec.Swagger)
			_ = json.Unmarshal(ld.docs[w.Root], sw)
			err, pan := guard(func() error { return spec.ExpandSpec(sw, sharedOpts) })
			if pan != "" || err != nil {
				report("call-failed", fmt.Sprintf("%v %s", err, pan))
				break
			}
			out, _ := oracle.Norm(sw)
			var plain interface{}
			b, _ := json.Marshal(out)
			_ = json.Unmarshal(b, &plain)
			if mm, _ := monitorMeaning(in, w.Root, plain, true); len(mm) > 0 {
				report("result-depends-on-earlier-call", mm[0])
			}
		case "ExpandSchemaWithBasePath", "ExpandSchema(typed-root)":
			elem := pick("definitions")
			if elem == "" {
				break
			}
			st := oracle.State{Doc: w.Root, Ptr: oracle.TokensToPointer([]string{"definitions", elem})}
			var s *spec.Schema
			var err error
			var pan string
			if kind == "ExpandSchemaWithBasePath" {
				s = spec.RefSchema(gen.RefText(w.Root, w.Root, []string{"definitions", elem}, "samefile"))
				err, pan = guard(func() error { return spec.ExpandSchemaWithBasePath(s, nil, opts) })
			} else {
				// the in-memory root travels through the pseudo location .root: only meaningful when the element stays inside the root
				refs, _ := in.Reachable([]oracle.Child{{St: st, Kind: "schema"}}, false)
				local := true
				for _, ri := range refs {
					if ri.Target.Doc != w.Root || !strings.HasPrefix(ri.Text, "#") {
						local = false
					}
				}
				if !local {
					res.Count("skipped(element-leaves-the-root)", 1)
					break
				}
				sw := new(spec.Swagger)
				_ = json.Unmarshal(ld.docs[w.Root], sw)
				s = spec.RefSchema(gen.CanonLocalRef("definitions", elem))
				err, pan = guard(func() error { return spec.ExpandSchema(s, sw, nil) })
			}
			if pan != "" || err != nil {
				report("call-failed", fmt.Sprintf("%v %s", err, pan))
				break
			}
			out, _ := oracle.Norm(s)
			var plain interface{}
			b, _ := json.Marshal(out)
			_ = json.Unmarshal(b, &plain)
			outW := withRoot(in, w.Root, setAt(in.Docs[w.Root], []string{"definitions", elem}, plain))
			if m := oracle.Bisimilar(in, st, outW, st, "schema"); m != nil {
				report("result-depends-on-earlier-call", fmt.Sprintf("%s%s: %s (input %s, output %s)", st.Ptr, m.Path, m.Reason, m.A, m.B))
			}
			if kind == "ExpandSchemaWithBasePath" {
				checkLoadedAfresh([]oracle.Child{{St: st, Kind: "schema"}})
			}
		case "ResolveRefWithBase":
			// a definition of some document of the world, through its location only
			var docs []string
			for u := range w.Docs {
				docs = append(docs, u)
			}
			sort.Strings(docs)
			d := docs[rng.Intn(len(docs))]
			dm, _ := in.Docs[d].(map[string]interface{})
			defs, _ := dm["definitions"].(map[string]interface{})
			var ks []string
			for k := range defs {
				ks = append(ks, k)
			}
			sort.Strings(ks)
			if len(ks) == 0 {
				break
			}
			name := ks[rng.Intn(len(ks))]
			text := gen.RefText(w.Root, d, []string{"definitions", name}, "abs")
			ref := spec.MustCreateRef(text)
			var got *spec.Schema
			err, pan := guard(func() error {
				var e error
				got, e = spec.ResolveRefWithBase(nil, &ref, opts)
				return e
			})
			if pan != "" || err != nil {
				report("call-failed", fmt.Sprintf("%q: %v %s", text, err, pan))
				break
			}
			want, _ := codecOf("schema", defs[name])
			gn, _ := oracle.Norm(got)
			if !oracle.Equal(want, gn) {
				report("result-depends-on-earlier-call", fmt.Sprintf("%q resolved to %s, this version holds %s", text, core.Abbrev(oracle.Text(gn), 150), core.Abbrev(oracle.Text(want), 150)))
			}
			found := false
			for _, q := range ld.requests {
				if q == d {
					found = true
				}
			}
			if !found {
				report("document-not-loaded-afresh", fmt.Sprintf("%s was not requested (requests: %v)", d, ld.requests))
			}
		case "ExpandResponse", "ExpandParameter":
			spec.PathLoader = ld.load // these entry points only know the package-level loader
			pkgLoaderIsWorld = true
			section, k := "responses", "response"
			if kind == "ExpandParameter" {
				section, k = "parameters", "parameter"
			}
			elem := pick(section)
			if elem == "" {
				break
			}
			st := oracle.State{Doc: w.Root, Ptr: oracle.TokensToPointer([]string{section, elem})}
			text := gen.RefText(w.Root, w.Root, []string{section, elem}, "samefile")
			var outV interface{}
			var err error
			var pan string
			if kind == "ExpandResponse" {
				r := spec.ResponseRef(text)
				err, pan = guard(func() error { return spec.ExpandResponse(r, w.Root) })
				outV = r
			} else {
				p := spec.ParamRef(text)
				err, pan = guard(func() error { return spec.ExpandParameter(p, w.Root) })
				outV = p
			}
			if pan != "" || err != nil {
				report("call-failed", fmt.Sprintf("%v %s", err, pan))
				break
			}
			out, _ := oracle.Norm(outV)
			var plain interface{}
			b, _ := json.Marshal(out)
			_ = json.Unmarshal(b, &plain)
			outW := withRoot(in, w.Root, setAt(in.Docs[w.Root], []string{section, elem}, plain))
			if m := oracle.Bisimilar(in, st, outW, st, k); m != nil {
				report("result-depends-on-earlier-call", fmt.Sprintf("%s%s: %s (input %s, output %s)", st.Ptr, m.Path, m.Reason, m.A, m.B))
			}
			checkLoadedAfresh([]oracle.Child{{St: st, Kind: k}})
		case "ExpandSchema(root-with-id)":
			// a recursive schema that names itself with an id living next to the documents of the history: whatever the call
			// learns about that id must not survive it
			tag := fmt.Sprintf("v%d-%d", v, step)
			text := fmt.Sprintf(`{"id":"file:///w/ids/tree-%d.json","title":"tree %s","properties":{"n":{"$ref":"#/definitions/node"}},"definitions":{"node":{"title":"node %s","properties":{"next":{"$ref":"#/definitions/node"}}}}}`, v, tag, tag)
			s := new(spec.Schema)
			_ = json.Unmarshal([]byte(text), s)
			err, pan := guard(func() error { return spec.ExpandSchema(s, nil, nil) })
			if pan != "" || err != nil {
				report("call-failed", fmt.Sprintf("%v %s", err, pan))
				break
			}
			out, _ := oracle.Norm(s)
			// every cycle cut-point left behind is written "#/definitions/node", as a first call in a fresh process writes it
			var refs []string
			var collect func(v interface{})
			collect = func(v interface{}) {
				switch x := v.(type) {
				case map[string]interface{}:
					if r, ok := x["$ref"].(string); ok {
						refs = append(refs, r)
					}
					for _, w := range x {
						collect(w)
					}
				case []interface{}:
					for _, w := range x {
						collect(w)
					}
				}
			}
			collect(out)
			bad := len(refs) == 0
			for _, r := range refs {
				if r != "#/definitions/node" {
					bad = true
				}
			}
			if bad {
				report("result-depends-on-earlier-call", fmt.Sprintf("the cycle cut-points of a schema with an id came out as %q (a first call writes \"#/definitions/node\")", refs))
			}
		case "nil-options":
			// calls without an option structure: the package-level loader serves them, relative references are read from the working
			// directory. First a call that walks into documents elsewhere, then one with a relative reference: it must ask for the
			// document next to the working directory, whatever the first one has seen.
			cwd, _ := os.Getwd()
			localURL := "file://" + filepath.ToSlash(cwd) + "/c16-local.json"
			tag := fmt.Sprintf("v%d-%d", v, step)
			var reqs []string
			spec.PathLoader = func(u string) (json.RawMessage, error) {
				reqs = append(reqs, u)
				if u == localURL || u == filepath.ToSlash(cwd)+"/c16-local.json" {
					return json.RawMessage(`{"definitions":{"e":{"title":"local e ` + tag + `","type":"object"}}}`), nil
				}
				return ld.load(u)
			}
			pkgLoaderIsWorld = true
			var docs []string
			for u := range w.Docs {
				if u != w.Root {
					docs = append(docs, u)
				}
			}
			sort.Strings(docs)
			if len(docs) > 0 {
				d := docs[rng.Intn(len(docs))]
				dm, _ := in.Docs[d].(map[string]interface{})
				defs, _ := dm["definitions"].(map[string]interface{})
				for _, name := range keysOf(defs) {
					a := spec.RefSchema(gen.RefText(w.Root, d, []string{"definitions", name}, "abs"))
					if err, pan := guard(func() error { return spec.ExpandSchemaWithBasePath(a, nil, nil) }); err != nil || pan != "" {
						report("call-failed", fmt.Sprintf("nil options, %s: %v %s", a.Ref.String(), err, pan))
					}
				}
			}
			reqs = nil
			b := spec.RefSchema("c16-local.json#/definitions/e")
			err, pan := guard(func() error { return spec.ExpandSchemaWithBasePath(b, nil, nil) })
			if err != nil || pan != "" {
				report("result-depends-on-earlier-call", fmt.Sprintf("nil options, \"c16-local.json#/definitions/e\" read from %s: %v %s (requests: %v)", cwd, err, pan, reqs))
				break
			}
			if len(reqs) != 1 || (reqs[0] != localURL && reqs[0] != filepath.ToSlash(cwd)+"/c16-local.json") {
				report("result-depends-on-earlier-call", fmt.Sprintf("nil options: a reference relative to the working directory %s asked the loader for %v", cwd, reqs))
			}
			if b.Title != "local e "+tag {
				report("result-depends-on-earlier-call", fmt.Sprintf("nil options: resolved to %q, the document of this call holds %q", b.Title, "local e "+tag))
			}
		case "reused-ref-value":
			// one Ref value, created once per history, is handed to every call of this kind: a call must leave it as it found it, and what
			// it expands to is what the documents of this call say
			if sharedRef == nil {
				var docs []string
				for u := range w.Docs {
					if u != w.Root {
						docs = append(docs, u)
					}
				}
				sort.Strings(docs)
				for _, d := range docs {
					dm, _ := in.Docs[d].(map[string]interface{})
					defs, _ := dm["definitions"].(map[string]interface{})
					if ks := keysOf(defs); len(ks) > 0 {
						r := spec.MustCreateRef(gen.RefText(w.Root, d, []string{"definitions", ks[0]}, "abs"))
						sharedRef, sharedRefText, sharedRefDoc, sharedRefName = &r, r.String(), d, ks[0]
						break
					}
				}
			}
			if sharedRef == nil {
				break
			}
			s := &spec.Schema{SchemaProps: spec.SchemaProps{Ref: *sharedRef}}
			err, pan := guard(func() error { return spec.ExpandSchemaWithBasePath(s, nil, opts) })
			if after := sharedRef.String(); after != sharedRefText {
				report("caller-reference-modified", fmt.Sprintf("the Ref value handed in read %q before the call and %q after it", sharedRefText, after))
				r := spec.MustCreateRef(sharedRefText)
				sharedRef = &r
			}
			if pan != "" || err != nil {
				report("call-failed", fmt.Sprintf("%v %s", err, pan))
				break
			}
			st := oracle.State{Doc: sharedRefDoc, Ptr: oracle.TokensToPointer([]string{"definitions", sharedRefName})}
			out, _ := oracle.Norm(s)
			var plain interface{}
			b, _ := json.Marshal(out)
			_ = json.Unmarshal(b, &plain)
			outW := withRoot(in, sharedRefDoc, setAt(in.Docs[sharedRefDoc], []string{"definitions", sharedRefName}, rebaseRefs(plain, w.Root, sharedRefDoc)))
			if m := oracle.Bisimilar(in, st, outW, st, "schema"); m != nil {
				report("result-depends-on-earlier-call", fmt.Sprintf("%s%s: %s (input %s, output %s)", st.Ptr, m.Path, m.Reason, m.A, m.B))
			}
		case "invalid-base-then-invalid-id":
			// a call with a base location that is no URI at all, then a schema whose id is no URI either: the id is ignored, its relative
			// $ref is read next to the root of this call - whatever the first call left behind
			junk := new(spec.Schema)
			_ = json.Unmarshal([]byte(`{"title":"self-contained","properties":{"a":{"type":"string"}}}`), junk)
			_, _ = guard(func() error {
				return spec.ExpandSchemaWithBasePath(junk, nil, &spec.ExpandOptions{RelativeBase: "%zz", PathLoader: ld.load})
			})
			// (the target is a small document of its own next to the root: a schema with an invalid id is registered under the base
			// location itself, so references that lead back to the root document would read the holder instead - an oddity no property
			// speaks about, kept out of this check)
			tag := fmt.Sprintf("v%d-%d", v, step)
			tu, _ := url.Parse(w.Root)
			tu.Path, tu.RawPath = path.Dir(tu.Path)+"/c16-target.json", ""
			target := tu.String()
			var reqs []string
			tl := func(u string) (json.RawMessage, error) {
				reqs = append(reqs, u)
				if u == target {
					return json.RawMessage(`{"definitions":{"t":{"title":"target ` + tag + `","type":"object"}}}`), nil
				}
				return ld.load(u)
			}
			s := new(spec.Schema)
			_ = json.Unmarshal([]byte(`{"id":"%zz","title":"holder with an id that is not a URI","properties":{"a":{"$ref":"c16-target.json#/definitions/t"}}}`), s)
			err, pan := guard(func() error {
				return spec.ExpandSchemaWithBasePath(s, nil, &spec.ExpandOptions{RelativeBase: w.Root, PathLoader: tl})
			})
			if pan != "" || err != nil {
				report("result-depends-on-earlier-call", fmt.Sprintf("a relative $ref below an id that is not a URI: %v %s (requests: %v)", err, pan, reqs))
				break
			}
			if got := s.Properties["a"].Title; got != "target "+tag || len(reqs) != 1 || reqs[0] != target {
				report("result-depends-on-earlier-call", fmt.Sprintf("\"c16-target.json#/definitions/t\" below an invalid id resolved to %q with requests %v; this call's document at %s holds %q", got, reqs, target, "target "+tag))
			}
		case "reused-options-moved-base":
			// one option structure, reused by its owner for two roots in different directories: between the calls the owner points
			// RelativeBase at the other root (also through a by-value copy of the structure). Each call must read its relative $ref
			// next to the root it was given - nothing worked out for the first base may be remembered in or next to the structure.
			tag := fmt.Sprintf("v%d-%d", v, step)
			dirs := []string{"file:///c16m/one/", "file:///c16m/two/", "http://c16m.example/three/"}
			var reqs []string
			ml := func(u string) (json.RawMessage, error) {
				reqs = append(reqs, u)
				for _, d := range dirs {
					if u == d+"leaf.json" {
						return json.RawMessage(`{"definitions":{"t":{"title":"leaf of ` + d + ` ` + tag + `","type":"object"}}}`), nil
					}
				}
				return nil, fmt.Errorf("no document at %s", u)
			}
			own := &spec.ExpandOptions{PathLoader: ml, AbsoluteCircularRef: rng.Intn(2) == 0}
			order := rng.Perm(len(dirs))
			for n, di := range order {
				d := dirs[di]
				use := own
				own.RelativeBase = d + "root.json"
				if n > 0 && rng.Intn(2) == 0 {
					cp := *own // a by-value copy carries every field of the original
					use = &cp
				}
				snap := snapOpts(use)
				reqs = nil
				want := "leaf of " + d + " " + tag
				var got string
				var err error
				var pan string
				how := rng.Intn(3)
				switch how {
				case 0:
					s := spec.RefSchema("leaf.json#/definitions/t")
					err, pan = guard(func() error { return spec.ExpandSchemaWithBasePath(s, nil, use) })
					got = s.Title
				case 1:
					r := spec.MustCreateRef("leaf.json#/definitions/t")
					var sch *spec.Schema
					err, pan = guard(func() error {
						var e error
						sch, e = spec.ResolveRefWithBase(nil, &r, use)
						return e
					})
					if sch != nil {
						got = sch.Title
					}
				default:
					sw := new(spec.Swagger)
					_ = json.Unmarshal([]byte(`{"swagger":"2.0","info":{"title":"t","version":"1"},"paths":{},"definitions":{"d":{"$ref":"leaf.json#/definitions/t"}}}`), sw)
					err, pan = guard(func() error { return spec.ExpandSpec(sw, use) })
					got = sw.Definitions["d"].Title
				}
				res.Evals++
				if pan != "" || err != nil {
					report("result-depends-on-earlier-call", fmt.Sprintf("reused option structure, base now %sroot.json (entry %d, use %d): %v %s (requests: %v)", d, how, n, err, pan, reqs))
					break
				}
				if got != want {
					report("result-depends-on-earlier-call", fmt.Sprintf("reused option structure, base now %sroot.json (entry %d, use %d): \"leaf.json#/definitions/t\" gave %q, the document next to this root holds %q (requests: %v)", d, how, n, got, want, reqs))
				}
				if after := snapOpts(use); after != snap {
					report("caller-options-modified", fmt.Sprintf("%s -> %s", snap, after))
				}
			}
			res.Count("moved-base-uses", len(order))
		case "meta-schema":
			// expansions involving the built-in meta-schemas, and their resolution without any loader request
			var rec []string
			recLoader := func(u string) (json.RawMessage, error) {
				rec = append(rec, u)
				return nil, fmt.Errorf("no loader request expected, got %s", u)
			}
			switch rng.Intn(4) {
			case 0:
				s := spec.RefSchema("http://json-schema.org/draft-04/schema")
				err, pan := guard(func() error { return spec.ExpandSchemaWithBasePath(s, nil, &spec.ExpandOptions{PathLoader: recLoader}) })
				if err != nil || pan != "" {
					report("meta-schema-not-expandable", fmt.Sprintf("%v %s", err, pan))
				}
			case 1:
				s := spec.RefSchema("http://swagger.io/v2/schema.json")
				err, pan := guard(func() error { return spec.ExpandSchemaWithBasePath(s, nil, &spec.ExpandOptions{PathLoader: recLoader}) })
				if err != nil || pan != "" {
					report("meta-schema-not-expandable", fmt.Sprintf("%v %s", err, pan))
				}
			case 2:
				s := spec.MustLoadSwagger20Schema()
				_, _ = guard(func() error { return spec.ExpandSchema(s, nil, nil) })
			default:
				ref := spec.MustCreateRef("http://json-schema.org/draft-04/schema#/definitions/positiveInteger")
				var got *spec.Schema
				err, pan := guard(func() error {
					var e error
					got, e = spec.ResolveRefWithBase(nil, &ref, &spec.ExpandOptions{PathLoader: recLoader})
					return e
				})
				if err != nil || pan != "" {
					report("meta-schema-not-resolvable", fmt.Sprintf("%v %s", err, pan))
				} else {
					want, _ := oracle.EvalPointer(pinnedJSON["http://json-schema.org/draft-04/schema"], "/definitions/positiveInteger")
					gn, _ := oracle.Norm(got)
					if !oracle.Equal(want, gn) {
						report("meta-schema-resolves-to-other-content", oracle.Text(gn))
					}
				}
			}
			if len(rec) > 0 {
				report("meta-schema-needed-the-loader", fmt.Sprint(rec))
			}
		}
		_ = pkgLoaderIsWorld
		if after := snapOpts(opts); after != before {
			report("caller-options-modified", fmt.Sprintf("%+v -> %+v", before, after))
		}
		if after := snapOpts(sharedBaseOpts); after != sharedBaseBefore {
			report("caller-options-modified", fmt.Sprintf("reused option structure with a base location: %+v -> %+v", sharedBaseBefore, after))
			sharedBaseOpts.RelativeBase = base.Root
		}
		if after := snapOpts(sharedOpts); after != sharedBefore {
			report("caller-options-modified", fmt.Sprintf("reused option structure: %+v -> %+v", sharedBefore, after))
			sharedOpts.RelativeBase = ""
		}
		checkDefaultCache(report)
		res.Count("call."+kind, 1)
		res.Count("quiescent-cache-inspections", 1)
	}
	res.NonTrivial = sameURLDifferentContent >= 2
	res.Count("consecutive-calls-on-same-urls-with-different-content", sameURLDifferentContent)
	if len(history) > 8 {
		history = history[:8]
	}
	res.Sample = map[string]interface{}{"documents": len(base.Docs), "history_head": history}
	return res
}

func init() {
	core.Register(&core.Property{
		ID:    "C16",
		Level: "exploration",
		Rule: "history = 20 (thorough 60) public calls (ExpandSpec, ExpandSchemaWithBasePath, ExpandSchema with a typed root, ResolveRefWithBase, ExpandResponse, ExpandParameter, meta-schema expansion/resolution) over 3 versions of a world that share every URL " +
			"and the pseudo root but differ at every node (markers changed, definition names rotated), the package-level PathLoader swapped between calls; every call is judged against the version it was given " +
			"(bisimulation / designated sub-document), must request from the loader every external document it depends on, must leave the caller's options alone; after every call the package cache (hook H4) must hold exactly the two built-in meta-schemas, " +
			"same identity, JSON equal to the pinned copies. non-trivial = the history switches content under the same URLs at least twice; distinct by world",
		NumCases: c16NumCases,
		Run:      c16Run,
		Floors: func(env *core.Env) []string {
			return []string{"call.ExpandSpec", "call.ExpandSchemaWithBasePath", "call.ResolveRefWithBase", "call.ExpandResponse", "call.ExpandParameter", "call.meta-schema", "call.ExpandSchema(typed-root)", "call.ExpandSpec(shared-options,no-base)", "call.ExpandSchema(root-with-id)", "call.nil-options", "call.reused-ref-value", "call.invalid-base-then-invalid-id", "calls-with-reused-options",
				"quiescent-cache-inspections", "consecutive-calls-on-same-urls-with-different-content"}
		},
		ChunkSize:   10,
		Assumptions: []string{"each worker process runs many histories one after the other, so state leaking across histories is observed as well", "the fresh-process replay of sampled calls (design) is subsumed by judging every call against its own version with an independent oracle"},
	})
}

// rebaseRefs rewrites the $refs of an expansion result (written relative to the location from) so that they read the same from the
// document to: cut-points of cycles are the only $refs left, and the oracle reads them in the document the element came from.
func rebaseRefs(v interface{}, from, to string) interface{} {
	switch x := v.(type) {
	case map[string]interface{}:
		m := make(map[string]interface{}, len(x))
		for k, c := range x {
			if s, ok := c.(string); ok && k == "$ref" {
				if t, err := oracle.RefTarget(from, s); err == nil {
					toks, _ := oracle.PointerTokens(t.Ptr)
					m[k] = gen.RefText(to, t.Doc, toks, "abs")
					continue
				}
			}
			m[k] = rebaseRefs(c, from, to)
		}
		return m
	case []interface{}:
		a := make([]interface{}, len(x))
		for i, c := range x {
			a[i] = rebaseRefs(c, from, to)
		}
		return a
	}
	return v
}
