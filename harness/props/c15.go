package props

import (
	"encoding/json"
	"fmt"
	"sort"
	"strconv"

	"github.com/go-openapi/jsonpointer"
	"github.com/go-openapi/spec"

	"verifharness/core"
	"verifharness/gen"
	"verifharness/oracle"
)

// C15 — pointer lookups on typed documents agree with their JSON form.

// kinds the statement names: the root, a definition / a schema at any keyword position, a parameter, response, header,
// items object, path item, operation, security scheme, info or tag
var c15Listed = map[string]bool{"swagger": true, "schema": true, "parameter": true, "response": true, "header": true, "items": true,
	"pathItem": true, "operation": true, "securityScheme": true, "info": true, "tag": true}

func c15NumCases(env *core.Env) int {
	if env.Thorough() {
		return 12000
	}
	return 3000
}

func c15Run(env *core.Env, idx int) core.CaseResult {
	var res core.CaseResult
	rng := core.Rng(env.Seed, "C15", idx)
	g := gen.NewDocGen(rng)
	g.Refs = true
	g.XOrder = idx%2 == 0 // extension twins that differ by the case of the prefix only ("x-foo" / "X-foo")
	g.Density = []float64{1, 1.5, 2.2}[rng.Intn(3)]
	g.MaxDepth = 3 + rng.Intn(2)
	doc := g.Swagger(nil)
	text, _ := json.Marshal(doc)
	typed := new(spec.Swagger)
	if err := json.Unmarshal(text, typed); err != nil {
		res.Count("undecodable", 1)
		return res
	}
	enc, err := json.Marshal(typed)
	if err != nil {
		res.Count("unencodable", 1)
		return res
	}
	generic, _ := oracle.Parse(enc)
	var plain interface{} // what jsonpointer sees on the untyped side (float64 numbers)
	_ = json.Unmarshal(enc, &plain)
	res.Hash = core.HashBytes(text)
	res.Sample = map[string]interface{}{"document": core.Abbrev(string(text), 300)}
	wit := func(p string) interface{} {
		return map[string]interface{}{"pointer": p, "document": json.RawMessage(text)}
	}

	// in-scope pointers: every specification object (per the generator's kind map) that still exists in the
	// encoding, and every direct member of one except $ref
	type target struct {
		toks   []string
		kind   string
		member string
	}
	var targets []target
	var kindPtrs []string
	for p := range g.Kinds {
		kindPtrs = append(kindPtrs, p)
	}
	sort.Strings(kindPtrs)
	for _, p := range kindPtrs {
		if !c15Listed[g.Kinds[p]] {
			continue // the statement lists the kinds whose objects and members are in scope
		}
		toks, _ := oracle.PointerTokens(p)
		v, ok := oracle.Eval(generic, toks)
		if !ok {
			continue
		}
		targets = append(targets, target{toks, g.Kinds[p], ""})
		if m, isObj := v.(map[string]interface{}); isObj {
			var ks []string
			for k := range m {
				ks = append(ks, k)
			}
			sort.Strings(ks)
			for _, k := range ks {
				if k == "$ref" {
					continue
				}
				targets = append(targets, target{append(append([]string{}, toks...), k), g.Kinds[p], k})
			}
		}
	}
	depth2 := 0
	for _, t := range targets {
		ptrText := oracle.TokensToPointer(t.toks)
		want, ok := oracle.Eval(generic, t.toks)
		if !ok {
			continue
		}
		ptr, err := jsonpointer.New(ptrText)
		if err != nil {
			res.Inconcl = "jsonpointer rejects " + ptrText
			continue
		}
		// cross-check the library on the generic side against O-PTR
		gv, _, gerr := ptr.Get(plain)
		if gerr != nil {
			res.Violate("generic-lookup-disagrees-with-RFC6901", fmt.Sprintf("%s: %v", ptrText, gerr), wit(ptrText))
			continue
		}
		if gn, _ := oracle.Norm(gv); !oracle.Equal(gn, want) {
			res.Violate("generic-lookup-disagrees-with-RFC6901", ptrText, wit(ptrText))
			continue
		}
		res.Evals++
		if len(t.toks) >= 2 {
			depth2++
		}
		mclass := t.kind + "(object)"
		if t.member != "" {
			mclass = memberClass(t.kind, []string{t.member})
		}
		res.Count("lookup."+mclass, 1)
		var tv interface{}
		err, pan := guard(func() error {
			var e error
			tv, _, e = ptr.Get(typed)
			return e
		})
		if pan != "" {
			res.Violate("typed-lookup-panic "+mclass, ptrText+": "+pan, wit(ptrText))
			continue
		}
		if err != nil {
			res.Violate("typed-lookup-error "+mclass, fmt.Sprintf("%s: %v (generic side gives %s)", ptrText, err, core.Abbrev(oracle.Text(want), 100)), wit(ptrText))
			continue
		}
		tn, nerr := oracle.Norm(tv)
		if nerr != nil {
			res.Violate("typed-lookup-unencodable "+mclass, ptrText+": "+nerr.Error(), wit(ptrText))
			continue
		}
		if !oracle.Equal(tn, want) {
			res.Violate("typed-lookup-differs "+mclass, fmt.Sprintf("%s: typed %s, generic %s", ptrText, core.Abbrev(oracle.Text(tn), 120), core.Abbrev(oracle.Text(want), 120)), wit(ptrText))
		}
	}
	// deeper pointers (payload interiors, array elements): totality only
	var deeper [][]string
	var walk func(v interface{}, path []string)
	walk = func(v interface{}, path []string) {
		switch x := v.(type) {
		case map[string]interface{}:
			for k, w := range x {
				walk(w, append(append([]string{}, path...), k))
			}
		case []interface{}:
			for i, w := range x {
				walk(w, append(append([]string{}, path...), strconv.Itoa(i)))
			}
		}
		if len(path) > 0 {
			deeper = append(deeper, path)
		}
	}
	walk(generic, nil)
	rng.Shuffle(len(deeper), func(i, j int) { deeper[i], deeper[j] = deeper[j], deeper[i] })
	if len(deeper) > 150 {
		deeper = deeper[:150]
	}
	for _, toks := range deeper {
		ptrText := oracle.TokensToPointer(toks)
		ptr, err := jsonpointer.New(ptrText)
		if err != nil {
			continue
		}
		_, pan := guard(func() error {
			_, _, e := ptr.Get(typed)
			return e
		})
		res.Count("totality-only", 1)
		if pan != "" {
			res.Violate("typed-lookup-panic (deeper pointer)", ptrText+": "+pan, wit(ptrText))
		}
	}
	res.NonTrivial = depth2 > 0
	res.Count("pointers-depth>=2", depth2)
	return res
}

func init() {
	core.Register(&core.Property{
		ID:    "C15",
		Level: "exploration",
		Rule: "normal-form Swagger documents from G-DOC (hostile names incl. '/' and '~', status codes, default responses, extensions, unknown schema keywords); for every pointer to a specification object (per the generator's kind map) " +
			"and to every direct non-$ref member of one: jsonpointer.Get on the typed document vs on the generic decoding of its encoding, results compared as JSON values; the library's generic evaluation is itself cross-checked against an RFC 6901 evaluator; " +
			"up to 150 deeper pointers per document for totality only. case = document; non-trivial = has in-scope pointers of depth >= 2; distinct by document text",
		NumCases: c15NumCases,
		Run:      c15Run,
		Floors: func(env *core.Env) []string {
			return []string{"lookup.swagger(object)", "lookup.schema(object)", "lookup.parameter(object)", "lookup.response(object)", "lookup.header(object)", "lookup.items(object)",
				"lookup.pathItem(object)", "lookup.operation(object)", "lookup.securityScheme(object)", "lookup.info(object)", "lookup.tag(object)", "lookup.schema.x-*",
				"lookup.items.x-*", "lookup.schema.$schema", "lookup.schema.<unknown-keyword:plain>", "lookup.schema.properties", "lookup.swagger.definitions", "lookup.operation.responses",
				"lookup.info.contact", "totality-only", "pointers-depth>=2"}
		},
		Assumptions: []string{"pointers are enumerated on the encoding of the typed document, so members the codec drops (C01 findings) are not asked for",
			"in scope: targets that are specification objects or direct non-$ref members of one; deeper pointers are checked for totality only"},
	})
}
