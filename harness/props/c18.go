package props

import (
	"bytes"
	"encoding/json"
	"fmt"
	"sort"

	"github.com/go-openapi/spec"

	"verifharness/core"
	"verifharness/gen"
	"verifharness/oracle"
)

// C18 — a resolution cache is transparent; documents are fetched at most once.

func c18NumCases(env *core.Env) int {
	if env.Thorough() {
		return 10000
	}
	return 2500
}

// recCache records the traffic of a wrapped cache (event log for the offline checks).
type recCache struct {
	inner spec.ResolutionCache
	sets  []string
	gets  []string
}

func (c *recCache) Get(k string) (interface{}, bool) {
	c.gets = append(c.gets, k)
	return c.inner.Get(k)
}

func (c *recCache) Set(k string, v interface{}) {
	c.sets = append(c.sets, k)
	c.inner.Set(k, v)
}

type c18Run1 struct {
	out      []byte
	outJSON  interface{}
	err      error
	pan      string
	requests []string
}

// c18Expand expands the definition elem of the world's root through ExpandSchemaWithBasePath with the given cache.
func c18Expand(w *gen.World, elem string, cache spec.ResolutionCache, refuse map[string]bool, cont bool) c18Run1 {
	var r c18Run1
	ld := newLoader(w)
	if refuse != nil {
		ld.refuse = refuse
	}
	s := spec.RefSchema(gen.RefText(w.Root, w.Root, []string{"definitions", elem}, "samefile"))
	opts := &spec.ExpandOptions{RelativeBase: w.Root, PathLoader: ld.load, ContinueOnError: cont}
	r.err, r.pan = guard(func() error { return spec.ExpandSchemaWithBasePath(s, cache, opts) })
	r.requests = ld.requests
	if r.err == nil && r.pan == "" {
		r.out, _ = json.Marshal(s)
		_ = json.Unmarshal(r.out, &r.outJSON)
	}
	return r
}

func dupOf(reqs []string) string {
	seen := map[string]bool{}
	for _, q := range reqs {
		if seen[q] {
			return q
		}
		seen[q] = true
	}
	return ""
}

// manyDocsWorld: one definition that refers to n external documents, each from two places.
func manyDocsWorld(n int) *gen.World {
	props := map[string]interface{}{}
	w := &gen.World{Root: gen.RootURL, Features: map[string]int{"many-documents-world": 1}, Docs: map[string]interface{}{}}
	for i := 0; i < n; i++ {
		u := fmt.Sprintf("file:///w/a/many/doc%03d.json", i)
		rel := fmt.Sprintf("many/doc%03d.json#/definitions/d", i)
		if i%7 == 3 {
			// a document whose location has a query (a revision, a token): referred to by its absolute URL from both places
			u = fmt.Sprintf("http://h.example/many/doc%03d.json?rev=%d", i, i)
			rel = u + "#/definitions/d"
		}
		w.Docs[u] = map[string]interface{}{"definitions": map[string]interface{}{"d": map[string]interface{}{"title": fmt.Sprintf("doc %d", i), "type": "object"}}}
		props[fmt.Sprintf("a%03d", i)] = map[string]interface{}{"$ref": rel}
		props[fmt.Sprintf("b%03d", i)] = map[string]interface{}{"$ref": u + "#/definitions/d"}
	}
	w.Docs[gen.RootURL] = map[string]interface{}{"swagger": "2.0", "info": map[string]interface{}{"title": "t", "version": "1"}, "paths": map[string]interface{}{},
		"definitions": map[string]interface{}{"big": map[string]interface{}{"title": "big", "properties": props}}}
	w.Slots = 2 * n
	return w
}

const c18IDWorlds = 24

// c18IDWorld: an external document with a schema that carries an id and, beneath it, a fragment-only $ref; a namesake of the referenced
// definition exists in the document, in the id-scoped schema and at the id's own location. Which of them the library picks is not this
// check's business - that it picks the same one whatever the cache holds is.
func c18IDWorld(k int) *gen.World {
	const extURL = "file:///w/a/s/x.json"
	id := []string{"http://ids.example/c18/x.json", "idfile.json", "#frag", "http://ids.example/c18/dir/"}[k%4]
	holder := map[string]interface{}{"$ref": "#/definitions/leaf"}
	scoped := map[string]interface{}{"id": id, "title": "schema with id", "definitions": map[string]interface{}{"leaf": map[string]interface{}{"title": "leaf of the id-scoped schema", "type": "string"}}}
	switch (k / 4) % 3 {
	case 0:
		scoped["properties"] = map[string]interface{}{"p": holder}
	case 1:
		scoped["items"] = holder
	default:
		scoped["allOf"] = []interface{}{holder}
	}
	var withid interface{} = scoped
	if (k/12)%2 == 1 {
		withid = map[string]interface{}{"title": "outer", "properties": map[string]interface{}{"inner": scoped}}
	}
	decoy := func(t string) interface{} {
		return map[string]interface{}{"definitions": map[string]interface{}{"leaf": map[string]interface{}{"title": "leaf of " + t, "type": "boolean"}}}
	}
	w := &gen.World{Root: gen.RootURL, Features: map[string]int{"id-scoped-world": 1}, Slots: 3, Docs: map[string]interface{}{
		extURL:                              map[string]interface{}{"definitions": map[string]interface{}{"leaf": map[string]interface{}{"title": "leaf of the document", "type": "integer"}, "withid": withid}},
		"http://ids.example/c18/x.json":     decoy("the document at the id"),
		"http://ids.example/c18/dir/x.json": decoy("the document below the id directory"),
		"file:///w/a/s/idfile.json":         decoy("idfile.json next to the document"),
		"file:///w/a/idfile.json":           decoy("idfile.json next to the root"),
		gen.RootURL: map[string]interface{}{"swagger": "2.0", "info": map[string]interface{}{"title": "t", "version": "1"}, "paths": map[string]interface{}{},
			"definitions": map[string]interface{}{
				"entry":  map[string]interface{}{"$ref": "s/x.json#/definitions/withid"},
				"direct": map[string]interface{}{"title": "direct", "properties": map[string]interface{}{"l": map[string]interface{}{"$ref": "s/x.json#/definitions/leaf"}}},
			}},
	}}
	return w
}

func c18Run(env *core.Env, idx int) core.CaseResult {
	var res core.CaseResult
	rng := core.Rng(env.Seed, "C18", idx)
	if idx < 3 {
		// a reference graph with many documents: whatever bookkeeping the cache does must scale with it
		w := manyDocsWorld([]int{70, 100, 150}[idx])
		res.Hash = fmt.Sprintf("many-docs/%d", idx)
		res.NonTrivial = true
		res.Count("many-documents-world", 1)
		for _, mode := range []string{"no-cache", "library-cache", "ExpandSpec"} {
			var got c18Run1
			switch mode {
			case "no-cache":
				got = c18Expand(w, "big", nil, nil, false)
			case "library-cache":
				got = c18Expand(w, "big", spec.VerifNewDefaultCache(), nil, false)
			default:
				r := runExpandSpec(w, expandOpts{})
				got = c18Run1{err: r.Err, pan: r.Panic, requests: r.Requests}
			}
			res.Evals++
			wit := map[string]interface{}{"world": fmt.Sprintf("root with one definition referring to %d external documents, each twice", len(w.Docs)-1), "mode": mode, "requests": len(got.requests)}
			if got.err != nil || got.pan != "" {
				res.Violate("many-documents: expansion fails ("+mode+")", fmt.Sprintf("%v %s", got.err, got.pan), wit)
			} else if d := dupOf(got.requests); d != "" {
				res.Violate("document-requested-twice (many documents, "+mode+")", fmt.Sprintf("%s requested twice; %d requests for %d documents", d, len(got.requests), len(w.Docs)-1), wit)
			}
		}
		res.Sample = map[string]interface{}{"documents": len(w.Docs)}
		return res
	}
	var w *gen.World
	if idx < 3+c18IDWorlds {
		w = c18IDWorld(idx - 3)
		res.Count("id-scoped-world", 1)
	}
	o := gen.WorldOpts{NDocs: 2 + rng.Intn(4), Cyclic: rng.Intn(2) == 0, Nested: rng.Intn(2) == 0, Chains: rng.Intn(3) == 0, HTTP: rng.Intn(3) == 0,
		Elements: 2 + rng.Intn(2), MaxDepth: 1 + rng.Intn(2), RefDensity: []float64{0.5, 0.7}[rng.Intn(2)]}
	if w == nil {
		w = gen.GenWorld(rng, o)
	}
	if idx%3 == 0 && w.Features["id-scoped-world"] == 0 {
		// integers that only survive when read as written (above 2^53): a document decoded by the loader's path and the same document
		// decoded by the caller for pre-loading (plain encoding/json) must still give one output
		for _, d := range w.Docs {
			dm, _ := d.(map[string]interface{})
			defs, _ := dm["definitions"].(map[string]interface{})
			for _, v := range defs {
				if sm, ok := v.(map[string]interface{}); ok {
					if _, isRef := sm["$ref"]; !isRef {
						sm["maxLength"] = json.Number("9007199254740993")
						sm["x-big"] = []interface{}{json.Number("18014398509481985"), json.Number("1e400")}[:1]
					}
				}
			}
		}
		res.Count("world-with-integers-above-2^53", 1)
	}
	in := oworld(w)
	res.Hash = core.HashOf(w.Docs)
	var ext []string
	for u := range w.Docs {
		if u != w.Root {
			ext = append(ext, u)
		}
	}
	sort.Strings(ext)
	root, _ := in.Docs[w.Root].(map[string]interface{})
	var defs []string
	if dm, ok := root["definitions"].(map[string]interface{}); ok {
		for k := range dm {
			defs = append(defs, k)
		}
	}
	sort.Strings(defs)
	if len(defs) == 0 {
		return res
	}
	twoPlaces := 0
	generic := func(u string) interface{} {
		b, _ := json.Marshal(w.Docs[u])
		var g interface{}
		_ = json.Unmarshal(b, &g)
		return g
	}
	// whole-spec expansion: each external document at most once (the call manages its own cache)
	{
		r := runExpandSpec(w, expandOpts{})
		res.Evals++
		if d := dupOf(r.Requests); d != "" && r.Err == nil && r.Panic == "" {
			res.Violate("document-requested-twice ExpandSpec", fmt.Sprintf("%s requested twice: %v", d, r.Requests), worldWitness(w, expandOpts{}, map[string]interface{}{"requests": r.Requests}))
		}
		res.Count("entry.ExpandSpec", 1)
	}
	for _, elem := range defs {
		st := oracle.State{Doc: w.Root, Ptr: oracle.TokensToPointer([]string{"definitions", elem})}
		acyc := in.Acyclic([]oracle.Child{{St: st, Kind: "schema"}})
		ref := c18Expand(w, elem, nil, nil, false)
		res.Evals++
		res.Count("entry.ExpandSchemaWithBasePath", 1)
		wit := func(extra map[string]interface{}) map[string]interface{} {
			m := map[string]interface{}{"root": w.Root, "documents": w.Docs, "element": elem}
			for k, v := range extra {
				m[k] = v
			}
			return m
		}
		if ref.pan != "" || ref.err != nil {
			res.Count("reference-run-failed", 1)
			continue
		}
		if d := dupOf(ref.requests); d != "" {
			res.Violate("document-requested-twice (no cache)", fmt.Sprintf("%s requested twice: %v", d, ref.requests), wit(map[string]interface{}{"requests": ref.requests}))
		}
		cnt := map[string]int{}
		refsTo, _ := in.Reachable([]oracle.Child{{St: st, Kind: "schema"}}, false)
		for _, ri := range refsTo {
			if ri.Target.Doc != w.Root {
				cnt[ri.Target.Doc]++
			}
		}
		for _, n := range cnt {
			if n >= 2 {
				twoPlaces++
			}
		}
		same := func(label string, got c18Run1, extra map[string]interface{}) {
			if got.pan != "" {
				res.Violate("panic "+label, got.pan, wit(extra))
				return
			}
			if got.err != nil {
				res.Violate("cache-changes-outcome "+label+": "+errClass(got.err), got.err.Error(), wit(extra))
				return
			}
			if acyc {
				if !bytes.Equal(ref.out, got.out) {
					res.Violate("cache-changes-result "+label, fmt.Sprintf("%s instead of %s", core.Abbrev(string(got.out), 200), core.Abbrev(string(ref.out), 200)), wit(extra))
				}
				return
			}
			toks := []string{"definitions", elem}
			outW := withRoot(in, w.Root, setAt(in.Docs[w.Root], toks, got.outJSON))
			if m := oracle.Bisimilar(in, st, outW, st, "schema"); m != nil {
				res.Violate("cache-changes-meaning "+label, fmt.Sprintf("%s%s: %s", st.Ptr, m.Path, m.Reason), wit(extra))
			}
		}
		// (a) fresh caches: the library's own and a recording wrapper
		for _, kind := range []string{"library", "wrapped"} {
			var cache spec.ResolutionCache = spec.VerifNewDefaultCache()
			var rc *recCache
			if kind == "wrapped" {
				rc = &recCache{inner: cache}
				cache = rc
			}
			got := c18Expand(w, elem, cache, nil, false)
			res.Evals++
			res.Count("cache.fresh-"+kind, 1)
			extra := map[string]interface{}{"cache": "fresh " + kind, "requests": got.requests}
			same("fresh-"+kind+"-cache", got, extra)
			if d := dupOf(got.requests); d != "" {
				res.Violate("document-requested-twice (fresh "+kind+" cache)", fmt.Sprintf("%s requested twice: %v", d, got.requests), wit(extra))
			}
			if rc != nil {
				res.Count("cache-sets-observed", len(rc.sets))
				for _, k := range rc.sets {
					if why := canonicalRequest(k); why != "" && !(why == "fragment present" && w.Features["id-scoped-world"] > 0) {
						// (an id such as "#frag" names a pseudo document whose key is the base with that fragment)
						res.Violate("cache-key-not-canonical ("+why+")", fmt.Sprintf("Set(%q)", k), wit(extra))
						break
					}
				}
			}
		}
		// (b) every subset of the external documents pre-loaded
		most := 4
		if w.Features["id-scoped-world"] > 0 {
			most = 5 // also the document that lives at the id's own location
		}
		nsub := 1 << uint(len(ext))
		if len(ext) > most {
			nsub = 1 << uint(most)
		}
		for mask := 1; mask < nsub; mask++ {
			cache := spec.VerifNewDefaultCache()
			pre := map[string]bool{}
			for i, u := range ext {
				if i < most && mask&(1<<uint(i)) != 0 {
					cache.Set(u, generic(u))
					pre[u] = true
				}
			}
			got := c18Expand(w, elem, cache, nil, false)
			res.Evals++
			res.Count("cache.preloaded-subset", 1)
			extra := map[string]interface{}{"cache": "pre-loaded", "preloaded": sortedStrings(pre), "requests": got.requests}
			same("preloaded-cache", got, extra)
			for _, q := range got.requests {
				if pre[q] {
					res.Violate("cached-document-requested", fmt.Sprintf("%s is in the supplied cache and was requested from the loader", q), wit(extra))
					break
				}
			}
			if d := dupOf(got.requests); d != "" {
				res.Violate("document-requested-twice (pre-loaded cache)", fmt.Sprintf("%s requested twice: %v", d, got.requests), wit(extra))
			}
		}
	}
	// (c) one cache reused over a sequence of element expansions of the same root
	for _, kind := range []string{"library", "wrapped"} {
		var cache spec.ResolutionCache = spec.VerifNewDefaultCache()
		if kind == "wrapped" {
			cache = &recCache{inner: cache}
		}
		loaded := map[string]bool{}
		n := 2 + rng.Intn(5)
		for k := 0; k < n; k++ {
			elem := defs[rng.Intn(len(defs))]
			st := oracle.State{Doc: w.Root, Ptr: oracle.TokensToPointer([]string{"definitions", elem})}
			ref := c18Expand(w, elem, nil, nil, false)
			got := c18Expand(w, elem, cache, nil, false)
			res.Evals += 2
			res.Count("cache.reused-"+kind, 1)
			extra := map[string]interface{}{"root": w.Root, "documents": w.Docs, "element": elem, "cache": "reused " + kind, "step": k, "requests": got.requests}
			if ref.err != nil || ref.pan != "" {
				continue
			}
			if got.err != nil || got.pan != "" {
				res.Violate("cache-changes-outcome reused-cache", fmt.Sprintf("%v %s", got.err, got.pan), extra)
				continue
			}
			if in.Acyclic([]oracle.Child{{St: st, Kind: "schema"}}) && !bytes.Equal(ref.out, got.out) {
				res.Violate("cache-changes-result reused-cache", fmt.Sprintf("%s instead of %s", core.Abbrev(string(got.out), 200), core.Abbrev(string(ref.out), 200)), extra)
			}
			for _, q := range got.requests {
				if loaded[q] {
					res.Violate("cached-document-requested (reused cache)", fmt.Sprintf("%s was loaded by an earlier expansion with the same cache and is requested again", q), extra)
					break
				}
			}
			for _, q := range got.requests {
				loaded[q] = true
			}
		}
	}
	// (d) a cache that has lived through a loader fault stays transparent
	if len(ext) > 0 {
		elem := defs[rng.Intn(len(defs))]
		bad := ext[rng.Intn(len(ext))]
		for _, cont := range []bool{false, true} {
			cache := spec.VerifNewDefaultCache()
			_ = c18Expand(w, elem, cache, map[string]bool{bad: true}, cont)
			ref := c18Expand(w, elem, nil, nil, cont)
			got := c18Expand(w, elem, cache, nil, cont)
			res.Evals += 3
			res.Count("cache.after-loader-fault", 1)
			extra := map[string]interface{}{"root": w.Root, "documents": w.Docs, "element": elem, "cache": "reused after a loader fault", "refused_before": bad, "continue_on_error": cont}
			if (ref.err == nil) != (got.err == nil) || ref.pan != got.pan {
				res.Violate("cache-changes-outcome after-loader-fault", fmt.Sprintf("no cache: %v; cache that saw the fault: %v", ref.err, got.err), extra)
			} else if ref.err == nil && !bytes.Equal(ref.out, got.out) {
				st := oracle.State{Doc: w.Root, Ptr: oracle.TokensToPointer([]string{"definitions", elem})}
				if in.Acyclic([]oracle.Child{{St: st, Kind: "schema"}}) {
					res.Violate("cache-changes-result after-loader-fault", fmt.Sprintf("%s instead of %s", core.Abbrev(string(got.out), 200), core.Abbrev(string(ref.out), 200)), extra)
				}
			}
		}
	}
	c18WithRoot(env, idx, &res)
	if idx >= 3 && idx < 3+4 {
		c18DirectID(idx-3, &res)
	}
	if idx >= 7 && idx < 7+2 {
		c18VendoredCopy(idx-7, &res)
	}
	res.NonTrivial = len(ext) >= 2 && twoPlaces > 0
	res.Sample = map[string]interface{}{"documents": len(w.Docs), "definitions": len(defs), "external_documents": len(ext)}
	return res
}

// c18DirectID: the schema handed to the expander itself holds a sub-schema whose id is the location of a real document, and a
// fragment-only $ref below that id; the document at that location has a namesake of the target. Whatever the cache holds at that
// location - nothing, the document pre-loaded, what an earlier expansion left - the answer is the one given without a cache.
func c18DirectID(k int, res *core.CaseResult) {
	itemURL := []string{"http://ids.example/c18/item.json", "file:///w/a/s/item.json"}[k%2]
	pos := []string{"properties", "items"}[k/2]
	var holder interface{} = map[string]interface{}{"n": map[string]interface{}{"$ref": "#/definitions/name"}}
	if pos == "items" {
		holder = map[string]interface{}{"$ref": "#/definitions/name"}
	}
	schemaText, _ := json.Marshal(map[string]interface{}{"title": "outer", "definitions": map[string]interface{}{"wrapper": map[string]interface{}{
		"id": itemURL, "title": "wrapper", "definitions": map[string]interface{}{"name": map[string]interface{}{"title": "name of the schema with the id", "type": "string"}}, pos: holder}}})
	itemDoc := map[string]interface{}{"definitions": map[string]interface{}{"name": map[string]interface{}{"title": "name of the document at that location", "type": "integer"}}}
	var reqs []string
	loader := func(u string) (json.RawMessage, error) {
		reqs = append(reqs, u)
		if u == itemURL {
			b, _ := json.Marshal(itemDoc)
			return b, nil
		}
		return nil, fmt.Errorf("no document at %s", u)
	}
	run := func(cache spec.ResolutionCache) ([]byte, error, string) {
		s := new(spec.Schema)
		_ = json.Unmarshal(schemaText, s)
		err, pan := guard(func() error {
			return spec.ExpandSchemaWithBasePath(s, cache, &spec.ExpandOptions{RelativeBase: gen.RootURL, PathLoader: loader})
		})
		b, _ := json.Marshal(s)
		return b, err, pan
	}
	ref, rerr, rpan := run(nil)
	res.Evals++
	if rerr != nil || rpan != "" {
		res.Count("reference-run-failed", 1)
		return
	}
	pre := spec.VerifNewDefaultCache()
	var g interface{}
	b, _ := json.Marshal(itemDoc)
	_ = json.Unmarshal(b, &g)
	pre.Set(itemURL, g)
	reused := spec.VerifNewDefaultCache()
	_, _, _ = run(reused)
	for _, c := range []struct {
		name  string
		cache spec.ResolutionCache
	}{{"fresh cache", spec.VerifNewDefaultCache()}, {"document at the id's location pre-loaded", pre}, {"reused from an earlier expansion", reused}} {
		reqs = nil
		got, err, pan := run(c.cache)
		res.Evals++
		res.Count("schema-with-id-at-a-document-location", 1)
		wit := map[string]interface{}{"schema": json.RawMessage(schemaText), "id": itemURL, "document_at_that_location": itemDoc, "cache": c.name, "base": gen.RootURL}
		switch {
		case pan != "" || err != nil:
			res.Violate("cache-changes-outcome (schema with an id, "+c.name+")", fmt.Sprintf("%v %s", err, pan), wit)
		case !bytes.Equal(ref, got):
			res.Violate("cache-changes-result (schema with an id, "+c.name+")", fmt.Sprintf("%s instead of %s", core.Abbrev(string(got), 300), core.Abbrev(string(ref), 300)), wit)
		}
	}
}

// c18VendoredCopy: a document fetched from one location declares, in its top-level id, another location where a different version
// lives; the schema refers first into the copy, then to the declared location. Whatever the cache knew beforehand, the second $ref
// is answered by the document at the declared location.
func c18VendoredCopy(k int, res *core.CaseResult) {
	const copyURL, declared = "file:///w/a/vendor/item.json", "http://ids.example/c18/canonical/item.json"
	docs := map[string]string{
		copyURL:  `{"id":"` + declared + `","definitions":{"price":{"title":"price of the vendored copy","type":"number"}}}`,
		declared: `{"definitions":{"price":{"title":"price at the declared location","type":"number","minimum":0}}}`,
	}
	text := []string{`{"title":"outer","allOf":[{"$ref":"vendor/item.json#/definitions/price"},{"$ref":"` + declared + `#/definitions/price"}]}`,
		`{"title":"outer","items":[{"$ref":"vendor/item.json#/definitions/price"},{"$ref":"` + declared + `#/definitions/price"}]}`}[k%2]
	var reqs []string
	loader := func(u string) (json.RawMessage, error) {
		reqs = append(reqs, u)
		if d, ok := docs[u]; ok {
			return json.RawMessage(d), nil
		}
		return nil, fmt.Errorf("no document at %s", u)
	}
	run := func(cache spec.ResolutionCache) ([]byte, error, string) {
		s := new(spec.Schema)
		_ = json.Unmarshal([]byte(text), s)
		err, pan := guard(func() error {
			return spec.ExpandSchemaWithBasePath(s, cache, &spec.ExpandOptions{RelativeBase: gen.RootURL, PathLoader: loader})
		})
		b, _ := json.Marshal(s)
		return b, err, pan
	}
	ref, rerr, rpan := run(nil)
	res.Evals++
	if rerr != nil || rpan != "" {
		res.Count("reference-run-failed", 1)
		return
	}
	generic := func(u string) interface{} {
		var g interface{}
		_ = json.Unmarshal([]byte(docs[u]), &g)
		return g
	}
	preCopy, preBoth := spec.VerifNewDefaultCache(), spec.VerifNewDefaultCache()
	preCopy.Set(copyURL, generic(copyURL))
	preBoth.Set(copyURL, generic(copyURL))
	preBoth.Set(declared, generic(declared))
	reused := spec.VerifNewDefaultCache()
	_, _, _ = run(reused)
	for _, c := range []struct {
		name  string
		cache spec.ResolutionCache
	}{{"fresh cache", spec.VerifNewDefaultCache()}, {"vendored copy pre-loaded", preCopy}, {"both documents pre-loaded", preBoth}, {"reused from an earlier expansion", reused}} {
		reqs = nil
		got, err, pan := run(c.cache)
		res.Evals++
		res.Count("document-with-an-id-of-another-location", 1)
		wit := map[string]interface{}{"schema": json.RawMessage(text), "documents": docs, "cache": c.name, "base": gen.RootURL, "requests": append([]string{}, reqs...)}
		switch {
		case pan != "" || err != nil:
			res.Violate("cache-changes-outcome (document declaring another location, "+c.name+")", fmt.Sprintf("%v %s", err, pan), wit)
		case !bytes.Equal(ref, got):
			res.Violate("cache-changes-result (document declaring another location, "+c.name+")", fmt.Sprintf("%s instead of %s", core.Abbrev(string(got), 300), core.Abbrev(string(ref), 300)), wit)
		}
	}
}

// c18WithRoot: the entry points that take an in-memory root and a cache (ExpandSchema, ExpandParameterWithRoot, ExpandResponseWithRoot).
// The root has no location of its own, so it refers to the other documents by absolute URL; documents are served by the package-level loader.
func c18WithRoot(env *core.Env, idx int, res *core.CaseResult) {
	rng := core.Rng(env.Seed, "C18/with-root", idx)
	w := gen.GenWorld(rng, gen.WorldOpts{NDocs: 2 + rng.Intn(3), AbsOnly: true, Cyclic: rng.Intn(3) == 0, Nested: rng.Intn(2) == 0, Elements: 2, MaxDepth: 1 + rng.Intn(2), RefDensity: 0.6})
	in := oworld(w)
	rootText, _ := json.Marshal(w.Docs[w.Root])
	rootJ, _ := in.Docs[w.Root].(map[string]interface{})
	var ext []string
	for u := range w.Docs {
		if u != w.Root {
			ext = append(ext, u)
		}
	}
	sort.Strings(ext)
	type run struct {
		out      []byte
		err      error
		pan      string
		requests []string
	}
	for _, section := range []string{"definitions", "parameters", "responses"} {
		sec, _ := rootJ[section].(map[string]interface{})
		var names []string
		for k := range sec {
			names = append(names, k)
		}
		sort.Strings(names)
		entry := map[string]string{"definitions": "ExpandSchema", "parameters": "ExpandParameterWithRoot", "responses": "ExpandResponseWithRoot"}[section]
		for _, n := range names {
			local := "#/" + section + "/" + gen.FragmentEscape(n)
			kind := map[string]string{"definitions": "schema", "parameters": "parameter", "responses": "response"}[section]
			st := oracle.State{Doc: w.Root, Ptr: oracle.TokensToPointer([]string{section, n})}
			acyc := in.Acyclic([]oracle.Child{{St: st, Kind: kind}})
			typed := rng.Intn(2) == 0
			do := func(cache spec.ResolutionCache) run {
				var r run
				ld := newLoader(w)
				saved := spec.PathLoader
				spec.PathLoader = ld.load
				defer func() { spec.PathLoader = saved }()
				var root interface{}
				if typed {
					sw := new(spec.Swagger)
					_ = json.Unmarshal(rootText, sw)
					root = sw
				} else {
					_ = json.Unmarshal(rootText, &root)
				}
				var v interface{}
				r.err, r.pan = guard(func() error {
					switch section {
					case "definitions":
						x := spec.RefSchema(local)
						v = x
						return spec.ExpandSchema(x, root, cache)
					case "parameters":
						x := spec.ParamRef(local)
						v = x
						return spec.ExpandParameterWithRoot(x, root, cache)
					}
					x := spec.ResponseRef(local)
					v = x
					return spec.ExpandResponseWithRoot(x, root, cache)
				})
				r.requests = ld.requests
				if r.err == nil && r.pan == "" {
					r.out, _ = json.Marshal(v)
				}
				return r
			}
			ref := do(nil)
			res.Evals++
			if ref.err != nil || ref.pan != "" {
				res.Count("reference-run-failed", 1)
				continue
			}
			wit := func(cacheState string, got run) map[string]interface{} {
				return map[string]interface{}{"entry": entry, "root_in_memory": json.RawMessage(rootText), "typed_root": typed, "documents": w.Docs, "element": local, "cache": cacheState,
					"requests": got.requests, "requests_without_cache": ref.requests}
			}
			check := func(cacheState string, got run, mustNotRequest map[string]bool) {
				res.Evals++
				res.Count("with-root."+entry, 1)
				switch {
				case got.pan != "":
					res.Violate("panic "+entry+" ("+cacheState+")", got.pan, wit(cacheState, got))
					return
				case got.err != nil:
					res.Violate("cache-changes-outcome "+entry+" ("+cacheState+"): "+errClass(got.err), got.err.Error(), wit(cacheState, got))
					return
				case acyc && !bytes.Equal(ref.out, got.out):
					res.Violate("cache-changes-result "+entry+" ("+cacheState+")", fmt.Sprintf("%s instead of %s", core.Abbrev(string(got.out), 200), core.Abbrev(string(ref.out), 200)), wit(cacheState, got))
				}
				if d := dupOf(got.requests); d != "" {
					res.Violate("document-requested-twice "+entry+" ("+cacheState+")", fmt.Sprintf("%s requested twice: %v", d, got.requests), wit(cacheState, got))
				}
				for _, q := range got.requests {
					if mustNotRequest[q] {
						res.Violate("cached-document-requested "+entry+" ("+cacheState+")", fmt.Sprintf("%s is in the supplied cache and was requested from the loader", q), wit(cacheState, got))
						break
					}
				}
			}
			check("fresh cache", do(spec.VerifNewDefaultCache()), nil)
			pre := spec.VerifNewDefaultCache()
			preSet := map[string]bool{}
			for _, u := range ext {
				var g interface{}
				b, _ := json.Marshal(w.Docs[u])
				_ = json.Unmarshal(b, &g)
				pre.Set(u, g)
				preSet[u] = true
			}
			check("all documents pre-loaded", do(pre), preSet)
			reused := spec.VerifNewDefaultCache()
			first := do(reused)
			loaded := map[string]bool{}
			for _, q := range first.requests {
				loaded[q] = true
			}
			check("reused from an earlier expansion of the same element", do(reused), loaded)
			if len(ref.requests) > 0 {
				res.Count("with-root.external-documents-needed", 1)
			}
		}
	}
}

func init() {
	core.Register(&core.Property{
		ID:    "C18",
		Level: "exploration",
		Rule: "multi-document worlds; every definition of the root expanded through ExpandSchemaWithBasePath with: no cache (reference), a fresh cache (the library's own and a recording wrapper), every subset of the external documents pre-loaded (all 2^k, k<=4), " +
			"one cache reused over sequences of 2-6 element expansions, and a cache that has lived through a loader fault; plus ExpandSpec; plus ExpandSchema/ExpandParameterWithRoot/ExpandResponseWithRoot " +
			"with an in-memory root (typed or generic) that refers to the other documents by absolute URL, with no cache, a fresh one, all documents pre-loaded, and one reused. monitors over the loader and cache event logs: result equals the no-cache result (bytes if acyclic, O-DEN otherwise), " +
			"no URL requested twice within one expansion, no pre-loaded or previously loaded URL requested, cache keys canonical absolute URLs. non-trivial = >= 2 external documents and a document referenced from two places",
		NumCases: c18NumCases,
		Run:      c18Run,
		Floors: func(env *core.Env) []string {
			return []string{"entry.ExpandSpec", "entry.ExpandSchemaWithBasePath", "cache.fresh-library", "cache.fresh-wrapped", "cache.preloaded-subset", "cache.reused-library", "cache.reused-wrapped",
				"cache.after-loader-fault", "cache-sets-observed", "many-documents-world", "id-scoped-world", "schema-with-id-at-a-document-location", "document-with-an-id-of-another-location",
				"with-root.ExpandSchema", "with-root.ExpandParameterWithRoot", "with-root.ExpandResponseWithRoot", "with-root.external-documents-needed"}
		},
		Assumptions: []string{"pre-loaded entries are generic JSON documents stored under their canonical URL, as the loader would have produced them"},
	})
}
