// Package core is the small framework shared by all property checks:
// deterministic case lists, worker-side execution records, supervisor-side
// aggregation, known-finding matching and evidence writing.
package core

import (
	"crypto/sha256"
	"encoding/hex"
	"encoding/json"
	"fmt"
	"math/rand"
	"sort"
	"sync/atomic"
	"unicode/utf8"
)

// Violation is one refuting observation made by a monitor.
type Violation struct {
	// Class names what failed where, independently of seeds, names and sizes.
	// Known findings are matched on (property, class).
	Class  string `json:"class"`
	Detail string `json:"detail"`
	// Witness is the self-contained input (documents, options, call) that failed.
	Witness interface{} `json:"witness,omitempty"`
	// Repeats counts further observations of the same class within the same case.
	Repeats int `json:"repeats,omitempty"`
}

// CaseResult is what running one case produces.
type CaseResult struct {
	Idx        int            `json:"idx"`
	Evals      int            `json:"evals"`            // executions of the real API
	Hash       string         `json:"hash"`             // canonical hash of the case, for distinctness
	NonTrivial bool           `json:"nt"`               // by the property's stated rule
	Cover      map[string]int `json:"cover,omitempty"`  // observation counters, summed
	Sample     interface{}    `json:"sample,omitempty"` // abbreviated case, kept for a few
	Violations []Violation    `json:"viol,omitempty"`
	Inconcl    string         `json:"inconcl,omitempty"` // non-empty: this case could not be decided
}

func (r *CaseResult) Count(key string, n int) {
	if r.Cover == nil {
		r.Cover = map[string]int{}
	}
	r.Cover[key] += n
}

// Violate records a refuting observation. Within one case a class is recorded once (with its witness);
// repetitions are only counted, so that a badly broken tree cannot blow up the result record.
func (r *CaseResult) Violate(class, detail string, witness interface{}) {
	for i := range r.Violations {
		if r.Violations[i].Class == class {
			r.Violations[i].Repeats++
			return
		}
	}
	if len(r.Violations) >= 40 {
		r.Violations[len(r.Violations)-1].Repeats++
		return
	}
	if len(detail) > 4000 {
		detail = detail[:4000] + "...(truncated)"
	}
	r.Violations = append(r.Violations, Violation{Class: class, Detail: detail, Witness: witness})
}

// Env is what a case may know about the run.
type Env struct {
	Tier    string
	Seed    int64
	Workdir string // scratch directory private to the worker
	Replay  bool
}

func (e *Env) Thorough() bool { return e.Tier == "thorough" }

// Property describes one check.
type Property struct {
	ID    string
	Level string // evidence level
	Rule  string
	// NumCases gives the size of the fixed case list for (tier, seed).
	NumCases func(env *Env) int
	// Run executes case idx. It must be a deterministic function of (env.Tier, env.Seed, idx)
	// apart from what the code under test does.
	Run func(env *Env, idx int) CaseResult
	// Floors lists coverage counters that must be non-zero for the run to be conclusive.
	Floors func(env *Env) []string
	// Exhaustive reports whether the case list enumerates a finite space completely.
	Exhaustive func(env *Env) bool
	// Assumptions goes to the evidence file.
	Assumptions []string
	// Race asks for the -race build of the worker.
	Race bool
	// Serial asks for one worker at a time with the given chunk (e.g. cases that spawn their own goroutines/processes).
	MaxWorkers int
	// ChunkSize overrides the default shard size.
	ChunkSize int
	// CaseTimeoutS is the per-chunk watchdog (seconds); 0 = default.
	ChunkTimeoutS int
}

var registry = map[string]*Property{}

func Register(p *Property) { registry[p.ID] = p }

func Lookup(id string) *Property { return registry[id] }

func IDs() []string {
	var ids []string
	for k := range registry {
		ids = append(ids, k)
	}
	sort.Strings(ids)
	return ids
}

// SubSeed derives a per-case seed.
func SubSeed(seed int64, prop string, idx int) int64 {
	h := sha256.Sum256([]byte(fmt.Sprintf("%d/%s/%d", seed, prop, idx)))
	var v int64
	for i := 0; i < 8; i++ {
		v = v<<8 | int64(h[i])
	}
	if v < 0 {
		v = -v
	}
	return v
}

// Rng returns the PRNG of a case.
func Rng(seed int64, prop string, idx int) *rand.Rand {
	return rand.New(rand.NewSource(SubSeed(seed, prop, idx)))
}

// HashOf hashes any JSON-able value canonically (Go's encoder sorts map keys).
func HashOf(v interface{}) string {
	b, err := json.Marshal(v)
	if err != nil {
		b = []byte(fmt.Sprintf("%#v", v))
	}
	h := sha256.Sum256(b)
	return hex.EncodeToString(h[:8])
}

func HashBytes(b ...[]byte) string {
	h := sha256.New()
	for _, x := range b {
		h.Write(x)
		h.Write([]byte{0})
	}
	return hex.EncodeToString(h.Sum(nil)[:8])
}

// Abbrev shortens a string for samples.
func Abbrev(s string, n int) string {
	if len(s) <= n {
		return s
	}
	cut := n
	for cut > 0 && !utf8.RuneStart(s[cut]) {
		cut-- // never cut inside a multi-byte character
	}
	return s[:cut] + fmt.Sprintf("...(+%d bytes)", len(s)-cut)
}

// WaitingForChild is raised by a property while it waits for a child process: the worker is then idle without being blocked,
// and its idle watchdog stands back.
var WaitingForChild atomic.Int32
