#!/bin/bash
# Silence sweep: every check, given tier, several seeds, on the unchanged tree. Prints one line per run; exit 1 if any run is not 0.
# usage: tools/sweep.sh quick|thorough "1 2 3 4 5" [ids...]
cd "$(dirname "$0")/.."
TIER=${1:-quick}; SEEDS=${2:-"1 2 3 4 5"}; shift 2 2>/dev/null
IDS=${*:-C01 C02 C03 C04 C05 C06 C07 C08 C09 C10 C11 C12 C13 C14 C15 C16 C17 C18 C19 C20}
bad=0
for s in $SEEDS; do for id in $IDS; do
  out=$(VERIF_SEED=$s ./run.sh $id $TIER 2>&1); rc=$?
  echo "seed=$s rc=$rc $(echo "$out" | tail -1)"
  if [ $rc -ne 0 ]; then bad=1; echo "$out" | grep -E "^(VIOLATION|INCONCLUSIVE)" | head -5; fi
done; done
exit $bad
