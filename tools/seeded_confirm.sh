#!/bin/bash
# Confirms one seeded change in a scratch worktree: applies the patch to /repo's HEAD, runs the existing suite (must pass),
# runs the demonstration with the change (must fail) and without it (must pass). Usage: seeded_confirm.sh <patch> <demo_test.go> <workdir-name>
# Prints one line: CONFIRMED|REJECTED <reason>
set -u
export GOFLAGS=-mod=mod GOPROXY=off GOSUMDB=off GOTOOLCHAIN=local
PATCH="$1"; DEMO="$2"; NAME="$3"
WT=/tmp/wt-confirm-$NAME
git -C /repo worktree remove --force "$WT" >/dev/null 2>&1
git -C /repo worktree add -q --detach "$WT" HEAD || { echo "REJECTED worktree"; exit 1; }
cleanup() { git -C /repo worktree remove --force "$WT" >/dev/null 2>&1; }
trap cleanup EXIT
cd "$WT"
if ! git apply --3way "$PATCH" >/dev/null 2>&1; then echo "REJECTED patch-does-not-apply"; exit 0; fi
git reset -q
if ! go build ./... >/dev/null 2>&1; then echo "REJECTED does-not-compile"; exit 0; fi
suite() { unshare -rn sh -c 'ip link set lo up; go test -vet=off -count=1 ./... ' >/tmp/suite-$NAME.log 2>&1; }
ok=0
for try in 1 2 3; do if suite; then ok=1; break; fi; done
if [ $ok -ne 1 ]; then echo "REJECTED existing-suite-fails-with-change ($(grep -m1 -- '--- FAIL' /tmp/suite-$NAME.log))"; exit 0; fi
cp "$DEMO" "$WT/zz_demo_test.go"
demo() { unshare -rn sh -c 'ip link set lo up; go test -vet=off -count=1 -run "Demo" . ' >/tmp/demo-$NAME.log 2>&1; }
if demo; then echo "REJECTED demo-passes-with-change"; exit 0; fi
git checkout -q -- . 
if ! demo; then
  # a demonstration may be scheduler dependent: give it two more chances on the unchanged code
  if ! demo && ! demo; then echo "REJECTED demo-fails-without-change ($(grep -m1 -- '--- FAIL' /tmp/demo-$NAME.log))"; exit 0; fi
fi
echo "CONFIRMED"
