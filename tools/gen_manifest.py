#!/usr/bin/env python3
"""Regenerates /verif/MANIFEST.json from the table below (claimed checks) and properties.jsonl."""
import json, os, subprocess, sys

ROOT = os.path.dirname(os.path.dirname(os.path.abspath(__file__)))

# id -> (level category, technique, level text, level note, design ref)
CLAIMED = {
    "C01": ("exploration",
            "reference-model monitor: exact JSON-value comparison (O-JSON) of decode->encode on generated normal-form documents, coverage floor = every (kind, keyword) cell of the pinned meta-schemas",
            "Executes the real codec on tens of thousands of generated normal-form documents (every optional keyword alone on a minimal carrier, then random combinations with hostile member names and payloads) and compares input and output as JSON values with exact numbers; each difference is classified per member so that known losses do not hide new ones; the run is inconclusive if any (kind, keyword) cell of the meta-schemas was never generated.",
            "Trusts encoding/json for parsing the generic side, the generator's normal-form predicate, and the pinned copies of the two meta-schemas under /verif/oracle-data.",
            "DESIGN.md §3 C01"),
    "C02": ("exploration",
            "reference-model monitor: bisimulation (O-DEN) between the input reference graph and the graph a consumer sees after the real ExpandSpec, over generated multi-document worlds with unique markers per node; R repetitions per world for map order",
            "Thousands of generated multi-document reference graphs (all $ref spellings x directory relations, cycles, nested targets, chains of parameter/response/path-item refs across documents, colliding file and element names, escaped-twin names, prefix-named documents) are expanded by the real code, and every definition/parameter/response/path item of the result is compared, level by level through remaining $refs read from the root location, with the denotation of the same element in the input; the world's unique markers make a resolution against the wrong document observable.",
            "Oracle = net/url.ResolveReference (RFC 3986) + own RFC 6901 evaluator + assumed-pairs bisimulation; no id keyword and no $ref siblings on non-schema holders in these worlds.",
            "DESIGN.md §3 C02"),
    "C03": ("exploration",
            "offline checker over expansion results: every $ref left in the output is located (O-URL+O-PTR) and tested for membership of an input reference cycle (O-CYC); byte-identity of acyclic outputs over repeated runs",
            "On the same kind of worlds as C02, with AbsoluteCircularRef on and off: each remaining $ref must resolve from the root location to a node on a reference cycle of the input, acyclic worlds must come out $ref-free and byte-identical over R runs, and the surface form (absolute / fragment-only into the root) is checked; plus ExpandSchemaWithBasePath of schemas that refer to the whole base document by name, and ExpandSpec of self-contained cyclic documents without any base location.",
            "Surface form in the weak reading (fragment-only required only for targets inside the root document).",
            "DESIGN.md §3 C03"),
    "C04": ("exploration",
            "invariant hook H1 (logical step counter, parent-ref stack) with a budget derived from the size of the acyclic unfolding (O-CYC); crash-isolated workers for fatal stack overflows",
            "All reference graphs over <=2 (thorough <=3) schema nodes with two $ref slots each (targets: any node, dangling, ill-typed incl. null, wrong kind), 11 id variants (absolute, relative file/directory, fragment, nodes referring to each other by id with the authority in normal form / upper case / default port, malformed ids), parameter/response/path-item self-references and cycles not containing the entry, on 1-2 documents, are run through 9 entry points and the 4 SkipSchemas/ContinueOnError combinations, plus random large graphs; non-termination is decided on logical steps (no wall clock), and a $ref pushed twice on the parent stack, a panic or a worker death is a violation.",
            "Termination restated as bounded progress (8*U+64 steps, 16*U+256 with ids, 64*U+1024 for random worlds with ids; observed use mostly < 25% of the budget); the open finding (relative-directory ids) is attributed by a counterfactual run with absolute ids.",
            "DESIGN.md §3 C04"),
    "C05": ("exploration",
            "reference-model monitor at the API boundary: RFC 3986 + RFC 6901 oracle gives the designated sub-document, compared (after the kind's codec) with what each Resolve* entry point returns for three root representations; root snapshot before/after",
            "Up to 60 references per generated world - to every element reachable by containment, with names needing ~0/~1/percent escapes and escaped-twin names, in root/sibling/sub/parent/http documents, plus dangling pointers and documents, and schemas that are exactly {} (definition, property, allOf member, items, additionalProperties) - are resolved through Resolve{Ref,Parameter,Response,PathItem,Items}[WithBase] with the root as typed object, generic JSON and location only.",
            "Expected value = designated JSON pushed through the kind's own codec; the zero Ref{} is left out.",
            "DESIGN.md §3 C05"),
    "C08": ("fault_enumeration",
            "fault injection at the boundary (recording PathLoader refusing every subset of the external documents; planted dangling/ill-typed/missing targets) with a reachability oracle for the must-follow set and bisimulation with verbatim unresolved leaves for continue-on-error",
            "For each generated world every subset of its external documents (all 2^k for k<=4) is refused by the loader, in strict and continue-on-error mode, on top of planted dangling pointers, missing documents and string/number/boolean/array targets at every holder kind: strict mode must fail iff a reachable $ref is unresolvable, continue mode must not fail, must leave unresolvable schema $refs verbatim and expand the rest as without faults. Dangling pointers include near misses and pointers into null documents; the in-memory-root entry points are called for a root and the same root minus a referenced definition with one shared cache; a $ref next to an id is resolvable exactly where the id's scope says.",
            "The loader never refuses the root; non-schema holders of unresolvable $refs are wildcards under continue-on-error; worlds are sampled, fault subsets per world are enumerated.",
            "DESIGN.md §3 C08"),
    "C09": ("exploration",
            "offline checkers over skip-schemas results: conservation walk (every schema $ref holder kept, none invented, same target read from the root), O-JSON equality of definitions, bisimulation, and two-stage comparison with direct full expansion",
            "Worlds dense in parameter/response/path-item imports from other directories are expanded with SkipSchemas; the monitors check the five clauses of the property one by one, including that full expansion of the skip result equals direct full expansion (bytes for acyclic worlds, bisimulation otherwise).",
            "The second stage feeds the skip result back as root at the same location with the same loader.",
            "DESIGN.md §3 C09"),
    "C10": ("exploration",
            "reference-model monitor (O-DEN) on every single-element entry point x root representation x cache state, plus C03/C04 monitors, root and option snapshots",
            "Every definition, parameter and response of generated roots is expanded through the six single-element entry points, with typed/generic roots, the element as fresh $ref holder or deep copy, and empty / pre-filled / previously-used caches; the result must denote what the element denotes in the context of that root, leave only resolvable cycle cut-points, stay within the step budget, and leave root and caller options untouched; multi-document worlds are also served from http layouts (other port/host/scheme), and an element with an id next to a relative $ref goes through every entry point.",
            "The *WithRoot entry points are exercised on single-document worlds (they are documented to reach the root only).",
            "DESIGN.md §3 C10"),
    "C11": ("exploration",
            "event-log checker over recorded loader requests (canonicity predicate) plus differential comparison of results across equivalent spellings of the root location; normaliser idempotence through hook H5",
            "Worlds relocated under the worker's (changing) working directory, an http and an https host are expanded/resolved with up to 24 spellings of the root location per world built from the rewrites the statement lists; outcome, loader-request set and result must equal the canonical spelling's, and every request must be canonical.",
            "Only the listed rewrites; relative spellings need the real working directory, which the worker changes between cases.",
            "DESIGN.md §3 C11"),
    "C12": ("exploration",
            "reference-model monitor: the URL a recording loader receives vs net/url RFC 3986 resolution, over an exhaustively enumerated bounded alphabet of references and bases; normalizeURI cross-checked through hook H5",
            "Every reference of <=3 (thorough 4) segments over a 10-symbol alphabet (dot segments, escapes incl. escaped percent, non-ASCII, case), relative/root-relative/absolute, with 3 fragment shapes, against 7 (14) bases is resolved through ResolveRefWithBase with a recording loader: exactly one request, for the RFC 3986 target without fragment.",
            "Domain as the statement says: file-path references whose last segment is a file name; no query, network-path reference, %2F or trailing dot segment.",
            "DESIGN.md §3 C12"),
    "C15": ("exploration",
            "differential monitor: jsonpointer.Get on the typed document vs on the generic decoding of its own encoding, for every in-scope pointer given by the generator's kind map; generic side cross-checked against an own RFC 6901 evaluator",
            "For each generated Swagger document every pointer to an object of a kind the statement lists, and to every direct non-$ref member of one (hundreds per document, hostile names, status codes, extensions, unknown keywords, zero-valued payloads), is evaluated both ways and compared as JSON values; deeper pointers are checked for totality.",
            "Pointers are enumerated on the encoding of the typed document, so codec losses (C01 findings) are not asked for.",
            "DESIGN.md §3 C15"),
    "C06": ("exploration",
            "runtime monitors on encodings: token scanner (validity, duplicate members), reflective conservation check of names/payloads between model value and text, 20 repeated encodings byte-compared, independent (x-order, name) sort",
            "Every generated model value (decoded documents with hostile names and all x-order shapes; builder scripts with an expected document maintained alongside) is encoded 20 times under Go's randomised map iteration; the monitors check byte-identity, syntax, duplicate members, that the text says exactly what the model holds, and the order of properties.",
            "Trusts encoding/json's tokenizer for scanning, reflection over the exported fields of the model for 'what the model holds', and the builder-script expectations written from the method documentation.",
            "DESIGN.md §3 C06"),
    "C07": ("exploration",
            "crash-isolated totality monitor (panic recovery, fatal-crash and confirmed-hang detection by the supervisor) plus byte-wise fixed-point check E(D(E(D(x))))==E(D(x)) over structure-aware mutants",
            "Structure-aware mutants of generated documents (wrong types, nulls, duplicates, extreme numbers, nesting to depth 2000/5000, odd reference strings, byte damage) are decoded into each of 28 exported model types in worker processes that log each case before running it, so a panic, a fatal stack overflow or a hang is attributed to its input; successful decodes are re-encoded, re-decoded and compared byte for byte.",
            "Hang = chunk watchdog plus the same case alone exceeding 120 s; stack exhaustion = worker death (max stack 256 MB). Inputs whose member names case-fold onto a keyword are checked for totality only, as the property states.",
            "DESIGN.md §3 C07"),
    "C13": ("exploration",
            "reference-model monitor over an enumerated grammar of reference strings: idempotence of canonicalisation, flag/pointer equality, JSON shape and JSON/gob round trips compared field by field",
            "The full product of a reference-string grammar (scheme case x authority forms x path shapes x query x fragment shapes, ~225 000 strings) plus seeded random strings is pushed through NewRef/String/JSON/gob and every law of the property is checked on each string.",
            "Strings NewRef rejects are outside the domain; equality of references is field-wise over text, the five flags, IsRoot/IsCanonical, pointer tokens and URL components.",
            "DESIGN.md §3 C13"),
    "C14": ("exploration",
            "reference-model monitor: JSON(v) before vs after a real gob encode/decode, compared as JSON values and classified per member/value class",
            "Generated documents with gob-fragile content (nested nulls and empty containers in free-form payloads, zero-valued validations on all carriers, the security shapes absent/[]/[{}]/empty scope lists, free-text scope names (blanks, tabs, empty), union types, references) are decoded, sent through encoding/gob and compared with their pre-transport JSON; two genuine baseline defects (zero validations, empty arrays) are listed as known findings by value class so any other loss is still reported.",
            "Documents the JSON codec itself rejects are skipped; trusts encoding/json for the comparison form.",
            "DESIGN.md §3 C14"),
    "C16": ("exploration",
            "history monitor: every call of a generated call history over content-varying versions of the same URLs is judged by the independent oracles (O-DEN, designated sub-document) against the version it was given; loader event log per call; invariant hook H4 on the package-level cache at every quiescent point",
            "Histories of 20 (thorough 60) public calls over three versions of a world that share every URL and the pseudo root but differ at every node, with the package-level loader swapped between calls and caller-reused option structures (one kept on the same root, one pointed at three roots in turn, also through by-value copies; snapshots read every field, unexported ones included); anything remembered from an earlier call shows up as a wrong marker, a missing loader request, a changed option or a changed package cache (keys, identity, JSON vs pinned meta-schemas); calls with nil options must read relative references from the working directory whatever earlier calls walked into.",
            "Worker processes run many histories back to back, so leaks across histories are seen too; the built-in meta-schemas are compared with pinned copies pushed through the same codec.",
            "DESIGN.md §3 C16"),
    "C17": ("exploration",
            "Go race detector (race log counted and de-duplicated by package frames) over barrier-released concurrent workloads with yield hooks H3, differential comparison with sequential answers, porcupine linearizability check of recorded default-cache Get/Set histories, cold-start child processes",
            "Built with -race: N in {2..64} goroutines x GOMAXPROCS in {1..16} run expansion/resolution on distinct worlds, expansion through one shared cache, Marshal/pointer lookups on a shared document and Get/Set histories on the default cache (checked against a per-key register with unique written values); 64 (thorough 512) fresh child processes release 16 goroutines straight into the lazy initialisation. A DATA RACE block, a crash, a confirmed hang, an answer differing from the sequential one or a non-linearizable history is a violation.",
            "The race detector reports only races that happen in the executions produced; the first pass of every workload uses hooks without shared memory so that the monitor adds no happens-before edge.",
            "DESIGN.md §3 C17"),
    "C18": ("exploration",
            "offline checkers over loader and cache event logs (at-most-once, never-request-cached, canonical keys) plus differential comparison of results with and without caches (fresh, every pre-loaded subset, reused, reused after a loader fault)",
            "Every definition of generated multi-document roots is expanded with no cache, fresh caches (the library's own and a recording wrapper), every subset of the external documents pre-loaded, one cache reused over sequences of element expansions, and a cache that lived through a loader fault; results must equal the no-cache result and the request logs must obey the at-most-once and never-request-cached rules. The same for the three entry points that take an in-memory root, for id-scoped schemas (in an external document, or handed in directly with the id at a real document's location) and for documents located by a URL with a query.",
            "Pre-loaded entries are generic JSON under canonical URLs, as the loader path would have stored them.",
            "DESIGN.md §3 C18"),
    "C19": ("exploration",
            "independent validator as oracle: python jsonschema Draft4Validator (pinned Swagger 2.0 schema) over documents recorded by the worker: generated input, re-encoding after decode, result of a successful ExpandSpec under default options and under one of skip-schemas / absolute-circular-ref / continue-on-error / both",
            "Schema-valid documents from the generator (checked valid by the independent validator before use) are round-tripped and expanded by the real code; the recorded outputs are validated by the same independent validator; each failure is classified by generalised instance path and validator keyword.",
            "Format checking off; python jsonschema with its bundled draft-04 meta-schema, nothing fetched.",
            "DESIGN.md §3 C19"),
    "C20": ("exploration",
            "reference-model monitor (flat keyword map) over exhaustively enumerated validation subsets and clear orders on the real carriers",
            "Every subset of validation keywords on each carrier, every order of the clear operations and 0-3 callbacks are executed against the real accessors and compared, call by call, with a 30-line flat-map model; subsets and orders are enumerated completely, value assignments are sampled.",
            "Trusts encoding/json for the 'other fields untouched' snapshot and the hand-written family table (taken from the property statement).",
            "DESIGN.md §3 C20"),
}

PENDING_REASON = "check not built yet in this round of work (see DESIGN.md §9 order of work); nothing is claimed for it"


def main():
    props = [json.loads(l) for l in open(os.path.join(ROOT, "properties.jsonl"))]
    hooks_commits = []
    try:
        out = subprocess.check_output(["git", "-C", "/repo", "log", "--format=%H %s"], text=True)
        for line in out.splitlines():
            h, _, subj = line.partition(" ")
            if subj.startswith("verif hooks"):
                hooks_commits.append(h)
    except Exception:
        pass
    checks, na = [], []
    for p in props:
        pid = p["id"]
        if pid in CLAIMED:
            cat, tech, text, note, ref = CLAIMED[pid]
            checks.append({
                "property_id": pid,
                "quick_cmd": f"./run.sh {pid} quick",
                "thorough_cmd": f"./run.sh {pid} thorough",
                "evidence_file": f"/verif/evidence/{pid}.json",
                "replay_cmd_template": f"./run.sh {pid} --replay {{path}}",
                "engine": "vcheck",
                "level_claimed": {"category": cat, "text": text, "design_ref": ref},
                "level_note": note,
                "technique": tech,
            })
        else:
            na.append({"property_id": pid, "reason": PENDING_REASON})
    man = {
        "version": 1,
        "setup_cmd": "./setup.sh",
        "hooks": {
            "guard": "verif",
            "enable": "go build -tags verif (harness module /verif/harness, replace github.com/go-openapi/spec => /repo)",
            "baseline_off_cmd": "cd /repo && GOFLAGS=-mod=mod GOPROXY=off GOSUMDB=off go test -vet=off -count=1 ./...",
            "source_commits": hooks_commits,
            "add_only": True,
        },
        "engines": [{
            "name": "vcheck",
            "path": "/verif/harness",
            "serves_properties": sorted(CLAIMED),
            "kind_free_text": "Go supervisor/worker harness: runs the real package (built from /repo with -tags verif) on seeded case lists in crash-isolated worker processes; monitors = reference models, hook invariants, event-log checkers, Go race detector",
        }],
        "checks": checks,
        "not_applicable": na,
        "notes": "Runtime monitoring only. Exit codes: 0 held on what was observed, 1 VIOLATION (not a listed known finding), 2 INCONCLUSIVE (coverage floor missed / watchdog). Known findings: /verif/known_findings.json.",
    }
    with open(os.path.join(ROOT, "MANIFEST.json"), "w") as f:
        json.dump(man, f, indent=1)
        f.write("\n")
    try:
        import jsonschema
        jsonschema.validate(man, json.load(open("/root/.vp/MANIFEST.schema.json")))
        print("MANIFEST.json valid;", len(checks), "claimed,", len(na), "not claimed")
    except ImportError:
        print("MANIFEST.json written (jsonschema not importable here)")


if __name__ == "__main__":
    main()
