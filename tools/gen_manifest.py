#!/usr/bin/env python3
"""Regenerates /verif/MANIFEST.json from the table below (claimed checks) and properties.jsonl."""
import json, os, subprocess, sys

ROOT = os.path.dirname(os.path.dirname(os.path.abspath(__file__)))

# id -> (level category, technique, level text, level note, design ref)
CLAIMED = {
    "C20": ("exploration",
            "reference-model monitor (flat keyword map) over exhaustively enumerated validation subsets and clear orders on the real carriers",
            "Every subset of validation keywords on each carrier, every order of the clear operations and 0-3 callbacks are executed against the real accessors and compared, call by call, with a 30-line flat-map model; subsets and orders are enumerated completely, value assignments are sampled.",
            "Trusts encoding/json for the 'other fields untouched' snapshot and the hand-written family table (taken from the property statement).",
            "DESIGN.md §3 C20"),
}

PENDING_REASON = "check not built yet in this round of work (see DESIGN.md §9 order of work); nothing is claimed for it"


def main():
    props = [json.loads(l) for l in open(os.path.join(ROOT, "properties.jsonl"))]
    hooks_commits = []
    try:
        out = subprocess.check_output(["git", "-C", "/repo", "log", "--format=%H %s"], text=True)
        for line in out.splitlines():
            h, _, subj = line.partition(" ")
            if subj.startswith("verif hooks"):
                hooks_commits.append(h)
    except Exception:
        pass
    checks, na = [], []
    for p in props:
        pid = p["id"]
        if pid in CLAIMED:
            cat, tech, text, note, ref = CLAIMED[pid]
            checks.append({
                "property_id": pid,
                "quick_cmd": f"./run.sh {pid} quick",
                "thorough_cmd": f"./run.sh {pid} thorough",
                "evidence_file": f"/verif/evidence/{pid}.json",
                "replay_cmd_template": f"./run.sh {pid} --replay {{path}}",
                "engine": "vcheck",
                "level_claimed": {"category": cat, "text": text, "design_ref": ref},
                "level_note": note,
                "technique": tech,
            })
        else:
            na.append({"property_id": pid, "reason": PENDING_REASON})
    man = {
        "version": 1,
        "setup_cmd": "./setup.sh",
        "hooks": {
            "guard": "verif",
            "enable": "go build -tags verif (harness module /verif/harness, replace github.com/go-openapi/spec => /repo)",
            "baseline_off_cmd": "cd /repo && GOFLAGS=-mod=mod GOPROXY=off GOSUMDB=off go test -vet=off -count=1 ./...",
            "source_commits": hooks_commits,
            "add_only": True,
        },
        "engines": [{
            "name": "vcheck",
            "path": "/verif/harness",
            "serves_properties": sorted(CLAIMED),
            "kind_free_text": "Go supervisor/worker harness: runs the real package (built from /repo with -tags verif) on seeded case lists in crash-isolated worker processes; monitors = reference models, hook invariants, event-log checkers, Go race detector",
        }],
        "checks": checks,
        "not_applicable": na,
        "notes": "Runtime monitoring only. Exit codes: 0 held on what was observed, 1 VIOLATION (not a listed known finding), 2 INCONCLUSIVE (coverage floor missed / watchdog). Known findings: /verif/known_findings.json.",
    }
    with open(os.path.join(ROOT, "MANIFEST.json"), "w") as f:
        json.dump(man, f, indent=1)
        f.write("\n")
    try:
        import jsonschema
        jsonschema.validate(man, json.load(open("/root/.vp/MANIFEST.schema.json")))
        print("MANIFEST.json valid;", len(checks), "claimed,", len(na), "not claimed")
    except ImportError:
        print("MANIFEST.json written (jsonschema not importable here)")


if __name__ == "__main__":
    main()
