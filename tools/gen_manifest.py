#!/usr/bin/env python3
"""Regenerates /verif/MANIFEST.json from the table below (claimed checks) and properties.jsonl."""
import json, os, subprocess, sys

ROOT = os.path.dirname(os.path.dirname(os.path.abspath(__file__)))

# id -> (level category, technique, level text, level note, design ref)
CLAIMED = {
    "C01": ("exploration",
            "reference-model monitor: exact JSON-value comparison (O-JSON) of decode->encode on generated normal-form documents, coverage floor = every (kind, keyword) cell of the pinned meta-schemas",
            "Executes the real codec on tens of thousands of generated normal-form documents (every optional keyword alone on a minimal carrier, then random combinations with hostile member names and payloads) and compares input and output as JSON values with exact numbers; each difference is classified per member so that known losses do not hide new ones; the run is inconclusive if any (kind, keyword) cell of the meta-schemas was never generated.",
            "Trusts encoding/json for parsing the generic side, the generator's normal-form predicate, and the pinned copies of the two meta-schemas under /verif/oracle-data.",
            "DESIGN.md §3 C01"),
    "C06": ("exploration",
            "runtime monitors on encodings: token scanner (validity, duplicate members), reflective conservation check of names/payloads between model value and text, 20 repeated encodings byte-compared, independent (x-order, name) sort",
            "Every generated model value (decoded documents with hostile names and all x-order shapes; builder scripts with an expected document maintained alongside) is encoded 20 times under Go's randomised map iteration; the monitors check byte-identity, syntax, duplicate members, that the text says exactly what the model holds, and the order of properties.",
            "Trusts encoding/json's tokenizer for scanning, reflection over the exported fields of the model for 'what the model holds', and the builder-script expectations written from the method documentation.",
            "DESIGN.md §3 C06"),
    "C07": ("exploration",
            "crash-isolated totality monitor (panic recovery, fatal-crash and confirmed-hang detection by the supervisor) plus byte-wise fixed-point check E(D(E(D(x))))==E(D(x)) over structure-aware mutants",
            "Structure-aware mutants of generated documents (wrong types, nulls, duplicates, extreme numbers, nesting to depth 2000/5000, odd reference strings, byte damage) are decoded into each of 28 exported model types in worker processes that log each case before running it, so a panic, a fatal stack overflow or a hang is attributed to its input; successful decodes are re-encoded, re-decoded and compared byte for byte.",
            "Hang = chunk watchdog plus the same case alone exceeding 120 s; stack exhaustion = worker death (max stack 256 MB). Inputs whose member names case-fold onto a keyword are checked for totality only, as the property states.",
            "DESIGN.md §3 C07"),
    "C13": ("exploration",
            "reference-model monitor over an enumerated grammar of reference strings: idempotence of canonicalisation, flag/pointer equality, JSON shape and JSON/gob round trips compared field by field",
            "The full product of a reference-string grammar (scheme case x authority forms x path shapes x query x fragment shapes, ~225 000 strings) plus seeded random strings is pushed through NewRef/String/JSON/gob and every law of the property is checked on each string.",
            "Strings NewRef rejects are outside the domain; equality of references is field-wise over text, the five flags, IsRoot/IsCanonical, pointer tokens and URL components.",
            "DESIGN.md §3 C13"),
    "C14": ("exploration",
            "reference-model monitor: JSON(v) before vs after a real gob encode/decode, compared as JSON values and classified per member/value class",
            "Generated documents with gob-fragile content (nested nulls and empty containers in free-form payloads, zero-valued validations on all carriers, the security shapes absent/[]/[{}]/empty scope lists, union types, references) are decoded, sent through encoding/gob and compared with their pre-transport JSON; two genuine baseline defects (zero validations, empty arrays) are listed as known findings by value class so any other loss is still reported.",
            "Documents the JSON codec itself rejects are skipped; trusts encoding/json for the comparison form.",
            "DESIGN.md §3 C14"),
    "C20": ("exploration",
            "reference-model monitor (flat keyword map) over exhaustively enumerated validation subsets and clear orders on the real carriers",
            "Every subset of validation keywords on each carrier, every order of the clear operations and 0-3 callbacks are executed against the real accessors and compared, call by call, with a 30-line flat-map model; subsets and orders are enumerated completely, value assignments are sampled.",
            "Trusts encoding/json for the 'other fields untouched' snapshot and the hand-written family table (taken from the property statement).",
            "DESIGN.md §3 C20"),
}

PENDING_REASON = "check not built yet in this round of work (see DESIGN.md §9 order of work); nothing is claimed for it"


def main():
    props = [json.loads(l) for l in open(os.path.join(ROOT, "properties.jsonl"))]
    hooks_commits = []
    try:
        out = subprocess.check_output(["git", "-C", "/repo", "log", "--format=%H %s"], text=True)
        for line in out.splitlines():
            h, _, subj = line.partition(" ")
            if subj.startswith("verif hooks"):
                hooks_commits.append(h)
    except Exception:
        pass
    checks, na = [], []
    for p in props:
        pid = p["id"]
        if pid in CLAIMED:
            cat, tech, text, note, ref = CLAIMED[pid]
            checks.append({
                "property_id": pid,
                "quick_cmd": f"./run.sh {pid} quick",
                "thorough_cmd": f"./run.sh {pid} thorough",
                "evidence_file": f"/verif/evidence/{pid}.json",
                "replay_cmd_template": f"./run.sh {pid} --replay {{path}}",
                "engine": "vcheck",
                "level_claimed": {"category": cat, "text": text, "design_ref": ref},
                "level_note": note,
                "technique": tech,
            })
        else:
            na.append({"property_id": pid, "reason": PENDING_REASON})
    man = {
        "version": 1,
        "setup_cmd": "./setup.sh",
        "hooks": {
            "guard": "verif",
            "enable": "go build -tags verif (harness module /verif/harness, replace github.com/go-openapi/spec => /repo)",
            "baseline_off_cmd": "cd /repo && GOFLAGS=-mod=mod GOPROXY=off GOSUMDB=off go test -vet=off -count=1 ./...",
            "source_commits": hooks_commits,
            "add_only": True,
        },
        "engines": [{
            "name": "vcheck",
            "path": "/verif/harness",
            "serves_properties": sorted(CLAIMED),
            "kind_free_text": "Go supervisor/worker harness: runs the real package (built from /repo with -tags verif) on seeded case lists in crash-isolated worker processes; monitors = reference models, hook invariants, event-log checkers, Go race detector",
        }],
        "checks": checks,
        "not_applicable": na,
        "notes": "Runtime monitoring only. Exit codes: 0 held on what was observed, 1 VIOLATION (not a listed known finding), 2 INCONCLUSIVE (coverage floor missed / watchdog). Known findings: /verif/known_findings.json.",
    }
    with open(os.path.join(ROOT, "MANIFEST.json"), "w") as f:
        json.dump(man, f, indent=1)
        f.write("\n")
    try:
        import jsonschema
        jsonschema.validate(man, json.load(open("/root/.vp/MANIFEST.schema.json")))
        print("MANIFEST.json valid;", len(checks), "claimed,", len(na), "not claimed")
    except ImportError:
        print("MANIFEST.json written (jsonschema not importable here)")


if __name__ == "__main__":
    main()
