#!/usr/bin/env python3
"""Writes /verif/MUTANTS.md from seeded/*/meta.json and refreshes the table between the markers in DESIGN.md §12."""
import json, glob, os, re
ROOT = os.path.dirname(os.path.dirname(os.path.abspath(__file__)))
rows = []
for f in sorted(glob.glob(f"{ROOT}/seeded/*/meta.json")):
    m = json.load(open(f))
    patch = open(os.path.join(os.path.dirname(f), "patch.diff")).read()
    files = sorted(set(re.findall(r"^\+\+\+ b/(\S+)", patch, re.M)))
    checks = m.get("checks_run", {})
    caught = m.get("caught_by", [])
    own = m["breaks_property"]
    first = ""
    for c in caught:
        first = checks[c]["first"]
        mm = re.search(r'class="([^"]*)"', first)
        first = mm.group(1) if mm else ""
        break
    rows.append((m["id"], own, ", ".join(files), ", ".join(f"{c}{'✓' if c in caught else '✗'}" for c in checks), first[:110], m.get("needs_to_manifest", "")[:220]))
lines = ["| id | breaks | files changed | checks run (✓ caught, ✗ silent) | first violation class | what it needs to manifest |", "|---|---|---|---|---|---|"]
for r in rows:
    lines.append("| " + " | ".join(x.replace("|", "\\|").replace("\n", " ") for x in r) + " |")
table = "\n".join(lines)
n = len(rows)
caught_own = sum(1 for r in rows if f"{r[1]}✓" in r[3])
caught_any = sum(1 for r in rows if "✓" in r[3])
summary = f"{n} seeded changes confirmed (existing suite passes with the change, demonstration fails with it and passes without it); {caught_own} caught by the check of the property they target, {caught_any} caught by at least one check."
open(f"{ROOT}/MUTANTS.md", "w").write("# Seeded changes and what catches them\n\nEvery change was written by a sub-agent that saw only the text of one property and a scratch worktree; each was confirmed with `tools/seeded_confirm.sh` and evaluated with `tools/seeded_eval.py` (quick tier, seed 1). Files: `seeded/<id>/{patch.diff, demo_test.go, notes.md, meta.json}`.\n\n" + summary + "\n\n" + table + "\n")
d = open(f"{ROOT}/DESIGN.md").read()
block = "<!-- SEEDED-TABLE-BEGIN -->\n" + summary + "\n\n" + table + "\n<!-- SEEDED-TABLE-END -->"
if "<!-- SEEDED-TABLE-BEGIN -->" in d:
    d = re.sub(r"<!-- SEEDED-TABLE-BEGIN -->.*?<!-- SEEDED-TABLE-END -->", lambda _: block, d, flags=re.S)
    open(f"{ROOT}/DESIGN.md", "w").write(d)
print(summary)
