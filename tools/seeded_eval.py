#!/usr/bin/env python3
"""Confirms every seeded change (tools/seeded_confirm.sh), runs the checks against it in /repo, and files it under /verif/seeded/.

usage: seeded_eval.py [<Cxx>-<A|B> ...]   (default: all found under the source directory)
"""
import json, os, re, shutil, subprocess, sys, time

SRC = os.environ.get("SEEDED_SRC", "/tmp/seedout")
ROOT = "/verif"
# the checks can be run from a scratch copy of /verif against a scratch worktree of /repo (EVAL_ROOT, EVAL_REPO) while /repo itself is busy
EROOT = os.environ.get("EVAL_ROOT", ROOT)
REPO = os.environ.get("EVAL_REPO", "/repo")
PREFIX = os.environ.get("EVAL_PREFIX", "")
EXTRA = {"C04-P": ["C08"], "C08-P": ["C02"], "C17-P": ["C16"], "C18-P": ["C16"], "C19-O": ["C09"], "C10-O": ["C18"], "C06-O": ["C07", "C01"], "C07-O": ["C06", "C01"], "C13-O": ["C14"], "C17-O": ["C18"], "C18-O": ["C10"], "C16-O": ["C10"], "C04-O": ["C08"], "C08-O": ["C04"], "C12-O": ["C02"], "C05-O": ["C15"], "C15-O": ["C05"],
         "C01-C": ["C07"], "C02-C": ["C16", "C10"], "C03-C": ["C16", "C10"], "C05-D": ["C16", "C10"], "C10-C": ["C16"], "C11-D": ["C16", "C10"], "C06-C": ["C17"], "C13-C": ["C17"], "C14-C": ["C17"],
         "C20-C": ["C17"], "C12-D": ["C17"], "C07-D": ["C17"], "C01-D": ["C17", "C07"], "C10-D": ["C17"], "C08-C": ["C18"], "C18-D": ["C08"], "C16-C": ["C17"], "C19-C": ["C02"], "C09-D": ["C03"], "C05-C": ["C11"],
         "C02-E": ["C10"], "C02-F": ["C03", "C09"], "C06-E": ["C01", "C07"], "C06-F": ["C17"], "C07-E": ["C01"], "C07-F": ["C13"], "C08-E": ["C18", "C10", "C16"], "C08-F": ["C15"],
         "C09-E": ["C02"], "C10-E": ["C08", "C16"], "C10-F": ["C02"], "C16-E": ["C17"], "C16-F": ["C18", "C05"], "C18-E": ["C10"], "C18-F": ["C02", "C04"], "C04-F": ["C08"],
         "C01-E": ["C07"], "C01-F": ["C06"], "C05-E": ["C08"], "C05-F": ["C02"], "C12-E": ["C11"], "C12-F": ["C02", "C10"], "C13-E": ["C14"], "C13-F": ["C14"], "C14-E": ["C13"], "C14-F": ["C17"],
         "C02-G": ["C09", "C03"], "C02-H": ["C03", "C09"], "C05-G": ["C15"], "C05-H": ["C17", "C10"], "C08-G": ["C04", "C02"], "C08-H": ["C03"], "C09-G": ["C02", "C08"], "C09-H": ["C02"],
         "C10-G": ["C17", "C05"], "C10-H": ["C08"], "C03-G": ["C10"], "C03-H": ["C16"], "C11-G": ["C12"], "C11-H": ["C12"], "C16-G": ["C17"], "C16-H": ["C10"], "C17-G": ["C06"], "C17-H": ["C18"], "C18-G": ["C04", "C09"], "C18-H": ["C11"],
         "C01-I": ["C07"], "C01-J": ["C07"], "C07-I": ["C01"], "C07-J": ["C01"], "C12-J": ["C17"], "C13-I": ["C14"], "C13-J": ["C14"], "C14-I": ["C01"], "C14-J": ["C01"], "C15-I": ["C05"], "C15-J": ["C05"],
         "C19-I": ["C01"], "C19-J": ["C01", "C07"], "C04-I": ["C08"], "C04-J": ["C08"], "C06-I": ["C01"], "C06-J": ["C01"],
         "C02-K": ["C09"], "C02-L": ["C10"], "C03-K": ["C02"], "C03-L": ["C02"], "C05-K": ["C08"], "C05-L": ["C12"], "C08-K": ["C02"], "C08-L": ["C10"], "C09-K": ["C02"], "C09-L": ["C03"],
         "C10-K": ["C02", "C03"], "C10-L": ["C08"], "C11-L": ["C10"], "C16-K": ["C17"], "C16-L": ["C04"], "C17-L": ["C16"], "C18-K": ["C16"], "C18-L": ["C02"],
         "C19-M": ["C01"], "C19-N": ["C01"], "C06-M": ["C01"], "C01-M": ["C07"], "C12-N": ["C02"], "C04-M": ["C10"],
         "C15-E": ["C05"], "C15-F": ["C05"], "C17-F": ["C18"], "C19-E": ["C01"], "C19-F": ["C01"],
         "C02-B": ["C16"], "C05-B": ["C16"], "C07-B": ["C17"], "C13-B": ["C17"], "C03-B": ["C10"], "C10-A": ["C03"], "C16-B": ["C05"], "C08-B": ["C03", "C04"], "C01-B": ["C06"], "C06-B": ["C01"]}

def sh(cmd, **kw):
    return subprocess.run(cmd, shell=True, capture_output=True, text=True, errors='replace', **kw)

def main():
    todo = sys.argv[1:]
    props = [json.loads(l) for l in open(f"{ROOT}/properties.jsonl")]
    titles = {p["id"]: p["title"] for p in props}
    items = []
    for d in sorted(os.listdir(SRC)):
        m = re.fullmatch(r"(C\d\d)([abcdefghi])", d)
        if not m:
            continue
        for x in "AB":
            # second-round changes (directories CNNb) are filed as C and D, third-round ones (CNNc) as E and F, fourth-round ones (CNNd) as G and H
            sid = f"{m.group(1)}-{ {'a': {'A': 'A', 'B': 'B'}, 'b': {'A': 'C', 'B': 'D'}, 'c': {'A': 'E', 'B': 'F'}, 'd': {'A': 'G', 'B': 'H'}, 'e': {'A': 'I', 'B': 'J'}, 'f': {'A': 'K', 'B': 'L'}, 'g': {'A': 'M', 'B': 'N'}, 'h': {'A': 'O', 'B': 'P'}, 'i': {'A': 'P', 'B': 'Q'}}[m.group(2)][x] }"
            if todo and sid not in todo:
                continue
            patch = f"{SRC}/{d}/patch{x}.ported.diff"
            ported = os.path.exists(patch)
            if not ported:
                patch = f"{SRC}/{d}/patch{x}.diff"
            demo = f"{SRC}/{d}/demo_{x}_test.go"
            if os.path.exists(patch) and os.path.exists(demo):
                items.append((sid, m.group(1), x, patch, demo, ported, f"{SRC}/{d}/notes{x}.md"))
    assert sh(f"git -C {REPO} status --short").stdout.strip() == "", "repo is not clean"
    for sid, prop, x, patch, demo, ported, notes in items:
        t0 = time.time()
        conf = sh(f"{ROOT}/tools/seeded_confirm.sh {patch} {demo} {sid}").stdout.strip().splitlines()
        conf = conf[-1] if conf else "REJECTED no-output"
        results = {}
        if conf.startswith("CONFIRMED"):
            r = sh(f"git -C {REPO} apply --3way {patch} && git -C {REPO} reset -q")
            if r.returncode != 0:
                conf = "REJECTED patch-does-not-apply-to-/repo"
            else:
                try:
                    for chk in [prop] + EXTRA.get(sid, []):
                        rr = sh(f"cd {EROOT} && {PREFIX} ./run.sh {chk} quick")
                        viol = [l for l in rr.stdout.splitlines() if l.startswith("VIOLATION")]
                        results[chk] = {"exit": rr.returncode, "violation_lines": len(viol), "first": (viol[0][:300] if viol else ""),
                                        "summary": (rr.stdout.strip().splitlines() or [""])[-1][:300]}
                finally:
                    sh(f"git -C {REPO} checkout HEAD -- . && git -C {REPO} clean -fdq")
        assert sh(f"git -C {REPO} status --short").stdout.strip() == "", "repo left dirty"
        out = f"{ROOT}/seeded/{sid}"
        if conf.startswith("CONFIRMED"):
            os.makedirs(out, exist_ok=True)
            shutil.copy(patch, f"{out}/patch.diff")
            shutil.copy(demo, f"{out}/demo_test.go")
            if os.path.exists(notes):
                shutil.copy(notes, f"{out}/notes.md")
            caught = [c for c, v in results.items() if v["exit"] == 1 and v["violation_lines"] > 0]
            meta = {
                "id": sid, "breaks_property": prop, "property_title": titles.get(prop, ""),
                "origin": "written by an independent sub-agent that saw only the property text and a scratch worktree" + (" (patch re-applied by hand onto the repaired tree: it no longer applied after the fix commits)" if ported else ""),
                "needs_to_manifest": first_para(notes),
                "confirmed": {"how": "tools/seeded_confirm.sh: scratch worktree of /repo HEAD; existing suite passes with the change; demonstration fails with it and passes without it", "result": conf},
                "checks_run": results, "caught_by": caught, "seconds": round(time.time() - t0, 1),
            }
            json.dump(meta, open(f"{out}/meta.json", "w"), indent=1)
        print(sid, conf, {c: (v["exit"], v["violation_lines"]) for c, v in results.items()}, f"{time.time()-t0:.0f}s", flush=True)

def first_para(path):
    try:
        txt = open(path).read()
    except OSError:
        return ""
    m = re.search(r"(?is)(needs|manifest)[^\n]*\n+(.*?)(\n\n|\Z)", txt)
    s = (m.group(0) if m else txt[:600]).strip()
    return re.sub(r"\s+", " ", s)[:700]

if __name__ == "__main__":
    main()
