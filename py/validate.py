#!/usr/bin/env python3
"""O-VALID: validates recorded documents against the pinned Swagger 2.0 JSON schema (draft-4, format checking off).

usage: validate.py <in.jsonl> <out.jsonl>
in : {"id": str, "stage": "in"|"roundtrip"|"expanded", "doc": {...}}
out: {"id": str, "stage": str, "valid": bool, "where": str, "validator": str, "message": str}
"""
import json, os, re, sys, warnings
warnings.filterwarnings("ignore")
from jsonschema import Draft4Validator
from jsonschema.exceptions import best_match

ROOT = os.path.dirname(os.path.dirname(os.path.abspath(__file__)))
schema = json.load(open(os.path.join(ROOT, "oracle-data", "swagger-2.0-schema.json")))
# the library registers the schema under its own id and ships the draft-04 meta-schema the Swagger schema refers to:
# nothing is fetched
validator = Draft4Validator(schema)

KEYWORDS = set("""swagger info host basePath schemes consumes produces paths definitions parameters responses security securityDefinitions tags externalDocs
title version description termsOfService contact license name url email get put post delete options head patch operationId deprecated summary schema headers examples
type format items collectionFormat default maximum exclusiveMaximum minimum exclusiveMinimum maxLength minLength pattern maxItems minItems uniqueItems enum multipleOf
required in allowEmptyValue properties additionalProperties allOf discriminator readOnly xml example flow scopes authorizationUrl tokenUrl namespace prefix attribute wrapped $ref""".split())

NAME_CONTAINERS = {"definitions", "securityDefinitions", "properties", "headers", "scopes", "examples"}

def generalise(path):
    out = []
    prev = None
    for depth, t in enumerate(path):
        container = prev in NAME_CONTAINERS or (depth == 1 and prev in ("parameters", "responses"))
        prev = t if not container else "<name>"
        if container and not isinstance(t, int):
            out.append("<name>")
            continue
        if isinstance(t, int):
            out.append("[i]")
        elif t in KEYWORDS or t == "default":
            out.append(t)
        elif re.fullmatch(r"[0-9]{3}", str(t)):
            out.append("<code>")
        elif str(t).startswith("/"):
            out.append("<path>")
        elif str(t).startswith("x-"):
            out.append("x-*")
        else:
            out.append("<name>")
    return "/" + "/".join(out)

def deepest(err):
    # descend into the sub-errors of oneOf/anyOf towards the most specific failure
    while err.context:
        err = max(err.context, key=lambda e: (e.validator == "required", len(e.absolute_path)))
    return err

def main():
    src, dst = sys.argv[1], sys.argv[2]
    with open(src) as f, open(dst, "w") as out:
        for line in f:
            rec = json.loads(line)
            errs = sorted(validator.iter_errors(rec["doc"]), key=lambda e: (list(map(str, e.absolute_path)), e.message))
            if not errs:
                out.write(json.dumps({"id": rec["id"], "stage": rec["stage"], "valid": True}) + "\n")
                continue
            e = deepest(best_match(errs))
            msg = re.sub(r"'[^']*'|\"[^\"]*\"", "_", e.message)
            if e.validator == "required":
                m = re.search(r"'([^']*)' is a required property", e.message)
                msg = "%s is a required property" % (m.group(1) if m else "_")
            out.write(json.dumps({"id": rec["id"], "stage": rec["stage"], "valid": False, "where": generalise(list(e.absolute_path)),
                                  "validator": str(e.validator), "message": msg[:120], "detail": e.message[:300], "path": "/" + "/".join(map(str, e.absolute_path))}) + "\n")

if __name__ == "__main__":
    main()
